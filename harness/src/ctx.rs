//! Run context and per-monitor metadata.
use serde_json::{json, Value};

pub struct Ctx {
    pub prop: String,
    pub tier: String,
    pub seed: u64,
    pub only: Option<String>,
}
impl Ctx {
    pub fn thorough(&self) -> bool {
        self.tier == "thorough"
    }
    /// pick the quick or thorough size
    pub fn size(&self, quick: usize, thorough: usize) -> usize {
        if self.thorough() {
            thorough
        } else {
            quick
        }
    }
    /// in replay mode only the named case is executed
    pub fn want(&self, case_id: &str) -> bool {
        match &self.only {
            None => true,
            Some(o) => o == case_id,
        }
    }
}

pub struct Meta {
    pub rule: String,
    pub assumptions: Vec<String>,
    pub thresholds: Value,
    /// counters that must reach a minimum, otherwise the run is INCONCLUSIVE (exit 2)
    pub floors: Vec<(String, u64)>,
}
impl Meta {
    pub fn new(rule: &str) -> Self {
        Meta { rule: rule.to_string(), assumptions: Vec::new(), thresholds: json!({}), floors: Vec::new() }
    }
    pub fn assume(mut self, s: &str) -> Self {
        self.assumptions.push(s.to_string());
        self
    }
    pub fn floor(mut self, k: &str, v: u64) -> Self {
        self.floors.push((k.to_string(), v));
        self
    }
    pub fn thresholds(mut self, v: Value) -> Self {
        self.thresholds = v;
        self
    }
}
