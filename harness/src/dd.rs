//! Minimal double-double accumulation (error-free transformations) for residual evaluation.

#[derive(Clone, Copy, Debug, Default)]
pub struct DD {
    pub hi: f64,
    pub lo: f64,
}

#[inline]
fn two_sum(a: f64, b: f64) -> (f64, f64) {
    let s = a + b;
    let bb = s - a;
    let e = (a - (s - bb)) + (b - bb);
    (s, e)
}
#[inline]
fn two_prod(a: f64, b: f64) -> (f64, f64) {
    let p = a * b;
    let e = a.mul_add(b, -p);
    (p, e)
}

impl DD {
    pub fn new(x: f64) -> DD {
        DD { hi: x, lo: 0.0 }
    }
    pub fn add_f(&mut self, x: f64) {
        let (s, e) = two_sum(self.hi, x);
        let lo = self.lo + e;
        let (hi, lo2) = two_sum(s, lo);
        self.hi = hi;
        self.lo = lo2;
    }
    /// self += a*b (exact product, double-double sum)
    pub fn add_prod(&mut self, a: f64, b: f64) {
        let (p, e) = two_prod(a, b);
        self.add_f(p);
        self.add_f(e);
    }
    pub fn value(&self) -> f64 {
        self.hi + self.lo
    }
}
