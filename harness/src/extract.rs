//! Tableau extraction: the Butcher coefficients an explicit stepper *actually applies* are read
//! off its own right-hand-side calls by answering call j with the unit vector e_j (y0 = 0), so the
//! y-argument of call i is h * (row i of A), its t-argument is x + c_i h, the state handed to SolOut
//! is h * b and the interpolant evaluated at theta yields the continuous weights b_j(theta).

use crate::probe::{run_low, LowOpts, Tol};
use ivp::prelude::*;
use ivp::solout::SolOut;
use std::cell::RefCell;

#[derive(Clone, Debug)]
pub struct CallLog {
    pub t: f64,
    pub y: Vec<f64>,
}

/// Scripted right-hand side: call j is answered by `answers(j)`, independent of (t, y).
pub struct Scripted<'a> {
    pub n: usize,
    pub answers: Box<dyn Fn(usize, &mut [f64]) + 'a>,
    pub calls: RefCell<Vec<CallLog>>,
}
impl<'a> IVP for Scripted<'a> {
    fn ode(&self, x: f64, y: &[f64], dydx: &mut [f64]) {
        let j = self.calls.borrow().len();
        self.calls.borrow_mut().push(CallLog { t: x, y: y.to_vec() });
        for v in dydx.iter_mut() {
            *v = 0.0;
        }
        (self.answers)(j, dydx);
    }
}

pub struct StepRec {
    pub xold: f64,
    pub x: f64,
    pub y: Vec<f64>,
    pub calls_at_entry: usize,
    /// interpolant at the requested thetas
    pub dense: Vec<Vec<f64>>,
}
pub struct Rec<'s, 'a> {
    pub f: &'s Scripted<'a>,
    pub thetas: Vec<f64>,
    pub steps: Vec<StepRec>,
    /// callback index at which the state is rewritten (to the same zeros) and ModifiedSolution returned
    pub modify_at: Option<usize>,
    /// answer of the initial callback: XOut(x) — interpolants on demand (dense output off)
    pub xout_at0: Option<f64>,
}
impl<'s, 'a> SolOut for Rec<'s, 'a> {
    fn solout(&mut self, xold: f64, x: &mut f64, y: &mut [f64], ip: Option<&StepInterpolant<'_>>) -> ControlFlag {
        let mut dense = Vec::new();
        if let Some(ip) = ip {
            for &th in &self.thetas {
                let mut yi = vec![0.0; y.len()];
                ip.interpolate(xold + th * (*x - xold), &mut yi);
                dense.push(yi);
            }
        }
        let idx = self.steps.len();
        self.steps.push(StepRec { xold, x: *x, y: y.to_vec(), calls_at_entry: self.f.calls.borrow().len(), dense });
        if self.modify_at == Some(idx) {
            for v in y.iter_mut() {
                *v = 0.0;
            }
            return ControlFlag::ModifiedSolution;
        }
        if idx == 0 {
            if let Some(xo) = self.xout_at0 {
                return ControlFlag::XOut(xo);
            }
        }
        ControlFlag::Continue
    }
}

/// evaluations per step (dense output on) after the initial f(x0,y0), and the index (within the
/// step, 1-based over the step's calls) of the call whose value becomes k1 of the next step
pub fn calls_per_step(m: Method) -> (usize, usize) {
    match m {
        Method::RK4 => (4, 4),
        Method::RK23 => (3, 3),
        Method::DOPRI5 => (6, 6),
        Method::DOP853 => (15, 12),
        _ => (0, 0),
    }
}

#[derive(Clone, Debug)]
pub struct Tableau {
    pub s: usize,
    pub a: Vec<Vec<f64>>,
    pub b: Vec<f64>,
    pub c: Vec<f64>,
    /// continuous weights: bt[k][j] = b_j(theta_k)
    pub thetas: Vec<f64>,
    pub bt: Vec<Vec<f64>>,
    pub note: String,
}

/// Extract the extended tableau (all evaluations of one step incl. FSAL and dense stages) from
/// step number `step` (1 = first step) of a run with x0, step size h (|h| a power of two),
/// and optionally a clipped final step (`xend_clip`: xend = x0 + clip*h with clip < 1 on step 1).
pub fn extract(m: Method, x0: f64, h: f64, step: usize, clip: Option<f64>, thetas: &[f64]) -> Result<Tableau, String> {
    extract_ex(m, x0, h, step, clip, thetas, false)
}

/// As `extract`; with `modify` the callback that precedes step `step` (the initial callback for step 1) rewrites the
/// state (all zeros, as it was) and returns ModifiedSolution: the solver must then evaluate the derivative afresh at the
/// start of the step — one extra call, answered with e_0 — and use THAT value as k1 of the step.
pub fn extract_ex(m: Method, x0: f64, h: f64, step: usize, clip: Option<f64>, thetas: &[f64], modify: bool) -> Result<Tableau, String> {
    extract_full(m, x0, h, step, clip, thetas, modify, false)
}

/// `on_demand`: dense output off; the initial callback answers XOut(middle of step `step`), so that (going forward) the
/// steps before it need no interpolant and step `step` is the first one that must hand one over. Not for DOP853, whose
/// number of evaluations per step depends on whether an interpolant is due.
pub fn extract_full(m: Method, x0: f64, h: f64, step: usize, clip: Option<f64>, thetas: &[f64], modify: bool, on_demand: bool) -> Result<Tableau, String> {
    let (per, fsal) = calls_per_step(m);
    if per == 0 {
        return Err("not an explicit Runge-Kutta method".into());
    }
    let s = per + 1; // stage 0 = k1
    let shift = if modify { 1 } else { 0 };
    let first_call_of_step = 1 + (step - 1) * per + shift; // index of the first call made inside step `step`
    // index of the call that provides k1 for step `step`
    let k1_call = if modify { first_call_of_step - 1 } else if step == 1 { 0 } else { (step - 2) * per + fsal };
    let n = s;
    let answers = move |j: usize, d: &mut [f64]| {
        if j == k1_call {
            d[0] = 1.0;
        } else if j >= first_call_of_step && j < first_call_of_step + per {
            d[j - first_call_of_step + 1] = 1.0;
        }
    };
    let f = Scripted { n, answers: Box::new(answers), calls: RefCell::new(Vec::new()) };
    let h_eff = clip.map(|c| c * h).unwrap_or(h);
    let xend = if clip.is_some() { x0 + h_eff } else { x0 + h * step as f64 };
    let y0 = vec![0.0; n];
    let lo = LowOpts { first_step: Some(h), max_step: Some(h.abs()), dense: !on_demand, ..Default::default() };
    let mut rec = Rec { f: &f, thetas: thetas.to_vec(), steps: Vec::new(), modify_at: if modify { Some(step - 1) } else { None }, xout_at0: if on_demand { Some(x0 + h * (step - 1) as f64 + 0.5 * h_eff) } else { None } };
    let res = run_low(m, &f, x0, &y0, xend, &Tol::S(0.0), &Tol::S(1e300), &lo, &mut rec);
    if let Err(e) = res {
        return Err(format!("solver returned {}", e));
    }
    if rec.steps.len() < step + 1 {
        return Err(format!("only {} callbacks, step {} not reached", rec.steps.len(), step));
    }
    let st = &rec.steps[step];
    let xs = rec.steps[step - 1].x;
    let calls = f.calls.borrow();
    if calls.len() < first_call_of_step + per {
        return Err(format!("only {} calls recorded, {} expected", calls.len(), first_call_of_step + per));
    }
    let hh = st.x - xs;
    if (hh - h_eff).abs() > 1e-15 * h_eff.abs() {
        return Err(format!("step {} has size {:e} instead of {:e}", step, hh, h_eff));
    }
    let mut a = vec![vec![0.0; s]; s];
    let mut c = vec![0.0; s];
    for i in 1..s {
        let cl = &calls[first_call_of_step + i - 1];
        c[i] = (cl.t - xs) / h_eff;
        for j in 0..s {
            a[i][j] = cl.y[j] / h_eff;
        }
    }
    // stage 0: k1 was evaluated at the start of the step
    let k1 = &calls[k1_call];
    let note = format!("k1 evaluated at t = {:e} (step starts at {:e})", k1.t, xs);
    if (k1.t - xs).abs() > 1e-15 * (1.0 + xs.abs()) {
        return Err(format!("the derivative used as k1 of step {} was evaluated at t = {:e}, but the step starts at {:e}", step, k1.t, xs));
    }
    let b: Vec<f64> = st.y.iter().map(|v| v / h_eff).collect();
    let bt: Vec<Vec<f64>> = st.dense.iter().map(|v| v.iter().map(|x| x / h_eff).collect()).collect();
    Ok(Tableau { s, a, b, c, thetas: thetas.to_vec(), bt, note })
}
