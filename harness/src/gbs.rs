//! Independent reference integrator: Gragg-Bulirsch-Stoer extrapolation of the explicit midpoint
//! rule (shares no code with the crate under test). Self-certifying: a value is reported only
//! if the runs with macro step H and H/2 agree.

pub type Rhs<'a> = dyn Fn(f64, &[f64], &mut [f64]) + 'a;

fn midpoint(f: &Rhs, t: f64, y: &[f64], hh: f64, nsub: usize) -> Vec<f64> {
    let n = y.len();
    let h = hh / nsub as f64;
    let mut ym = y.to_vec();
    let mut d = vec![0.0; n];
    f(t, y, &mut d);
    let mut yn: Vec<f64> = (0..n).map(|i| y[i] + h * d[i]).collect();
    let mut x = t + h;
    for _ in 1..nsub {
        f(x, &yn, &mut d);
        for i in 0..n {
            let swap = ym[i] + 2.0 * h * d[i];
            ym[i] = yn[i];
            yn[i] = swap;
        }
        x += h;
    }
    f(x, &yn, &mut d);
    (0..n).map(|i| 0.5 * (ym[i] + yn[i] + h * d[i])).collect()
}

/// One extrapolated macro step of size hh with K columns; returns (y, estimated error)
fn gbs_step(f: &Rhs, t: f64, y: &[f64], hh: f64, kcols: usize) -> (Vec<f64>, f64) {
    let n = y.len();
    let nseq: Vec<usize> = (0..kcols).map(|j| 2 * (j + 1)).collect();
    let mut tab: Vec<Vec<Vec<f64>>> = Vec::new(); // tab[j][k]
    for j in 0..kcols {
        let mut row = vec![midpoint(f, t, y, hh, nseq[j])];
        for k in 1..=j {
            let r = (nseq[j] as f64 / nseq[j - k] as f64).powi(2);
            let prev = &row[k - 1];
            let up = &tab[j - 1][k - 1];
            let v: Vec<f64> = (0..n).map(|i| prev[i] + (prev[i] - up[i]) / (r - 1.0)).collect();
            row.push(v);
        }
        tab.push(row);
    }
    let best = tab[kcols - 1][kcols - 1].clone();
    let prev = &tab[kcols - 1][kcols - 2];
    let err = (0..n).fold(0.0f64, |m, i| m.max((best[i] - prev[i]).abs()));
    (best, err)
}

fn integrate(f: &Rhs, t0: f64, y0: &[f64], ts: &[f64], hmacro: f64, evals_cap: &mut i64) -> Option<(Vec<Vec<f64>>, f64)> {
    let mut out = Vec::with_capacity(ts.len());
    let mut t = t0;
    let mut y = y0.to_vec();
    let mut maxerr: f64 = 0.0;
    for &tt in ts {
        let dist = tt - t;
        if dist != 0.0 {
            let nst = (dist.abs() / hmacro).ceil().max(1.0) as usize;
            let hh = dist / nst as f64;
            for s in 0..nst {
                let (yn, e) = gbs_step(f, t + hh * s as f64, &y, hh, 8);
                *evals_cap -= 80;
                if *evals_cap < 0 {
                    return None;
                }
                if yn.iter().any(|v| !v.is_finite()) {
                    return None;
                }
                y = yn;
                maxerr = maxerr.max(e);
            }
            t = tt;
        }
        out.push(y.clone());
    }
    Some((out, maxerr))
}

/// Reference values at `ts` (sorted in the direction of integration, starting from (t0,y0)).
/// Returns None (=> inconclusive) unless the H and H/2 runs agree to `tol` (relative to 1+|y|).
pub fn reference(f: &Rhs, t0: f64, y0: &[f64], ts: &[f64], hmacro: f64, tol: f64) -> Option<Vec<Vec<f64>>> {
    let mut cap: i64 = 40_000_000;
    let (a, _) = integrate(f, t0, y0, ts, hmacro, &mut cap)?;
    let (b, _) = integrate(f, t0, y0, ts, hmacro * 0.5, &mut cap)?;
    for (ya, yb) in a.iter().zip(&b) {
        for (p, q) in ya.iter().zip(yb) {
            if (p - q).abs() > tol * (1.0 + p.abs()) {
                return None;
            }
        }
    }
    Some(b)
}
