//! ivpmon — runtime monitors for the 20 ivp properties (see /verif/DESIGN.md).
//!
//! usage: ivpmon run --property C05 --tier quick|thorough [--seed N] [--only CASEID]
//!        ivpmon replay <file.json>
//!        ivpmon child <args...>          (C04 child process protocol)
//!        ivpmon c20-expected <tier> <seed>   (C20: Rust side of the differential table)

mod ctx;
mod dd;
mod extract;
mod gbs;
mod monitors;
mod probe;
mod problems;
mod report;
mod rng;
mod trees;
mod util;

use ctx::Ctx;
use serde_json::{json, Value};
use std::time::Instant;

fn verif_dir() -> String {
    std::env::var("IVPMON_VERIF_DIR").unwrap_or_else(|_| "/verif".to_string())
}

fn load_known() -> Vec<Value> {
    let p = format!("{}/known_findings.json", verif_dir());
    match std::fs::read_to_string(&p) {
        Ok(s) => match serde_json::from_str::<Value>(&s) {
            Ok(v) => v.get("findings").and_then(|f| f.as_array()).cloned().unwrap_or_default(),
            Err(e) => {
                eprintln!("harness error: cannot parse {}: {}", p, e);
                std::process::exit(2);
            }
        },
        Err(_) => Vec::new(),
    }
}

fn main() {
    let args: Vec<String> = std::env::args().collect();
    if args.len() < 2 {
        eprintln!("usage: ivpmon run --property ID --tier quick|thorough [--seed N]");
        std::process::exit(2);
    }
    probe::install_panic_hook();
    match args[1].as_str() {
        "run" => {
            let mut prop = String::new();
            let mut tier = "quick".to_string();
            let mut seed: u64 = std::env::var("VERIF_SEED").ok().and_then(|s| s.parse().ok()).unwrap_or(20261003);
            let mut only: Option<String> = None;
            let mut i = 2;
            while i < args.len() {
                match args[i].as_str() {
                    "--property" => {
                        prop = args[i + 1].clone();
                        i += 1;
                    }
                    "--tier" => {
                        tier = args[i + 1].clone();
                        i += 1;
                    }
                    "--seed" => {
                        seed = args[i + 1].parse().expect("seed");
                        i += 1;
                    }
                    "--only" => {
                        only = Some(args[i + 1].clone());
                        i += 1;
                    }
                    _ => {}
                }
                i += 1;
            }
            let code = run_property(&prop, &tier, seed, only, true);
            std::process::exit(code);
        }
        "replay" => {
            let s = std::fs::read_to_string(&args[2]).expect("read replay file");
            let v: Value = serde_json::from_str(&s).expect("parse replay file");
            let prop = v["property"].as_str().unwrap().to_string();
            let tier = v["tier"].as_str().unwrap_or("quick").to_string();
            let seed = v["seed"].as_u64().unwrap();
            let only = v["case_id"].as_str().map(|s| s.to_string());
            println!("replaying {} case {:?} (tier {}, seed {})", prop, only, tier, seed);
            println!("recorded: {} — {}", v["signature"], v["message"]);
            let code = run_property(&prop, &tier, seed, only, false);
            std::process::exit(code);
        }
        "child" => {
            monitors::c04::child_main(&args[2..]);
        }
        "debug-reflect" => monitors::c13::debug_reflect(),
        "debug-dop853" => monitors::c01::debug_dop853(),
        "debug-c01" => monitors::c01::debug_case(args[2].parse().unwrap(), args[3].parse().unwrap()),
        "debug-dae" => monitors::c15::debug_dae(),
        "debug-net" => monitors::c14::debug_net(args[2].parse().unwrap(), args[3].parse().unwrap()),
        "c20-expected" => {
            let tier = args.get(2).cloned().unwrap_or("quick".into());
            let seed: u64 = args.get(3).and_then(|s| s.parse().ok()).unwrap_or(20261003);
            monitors::c20::emit_expected(&tier, seed);
        }
        _ => {
            eprintln!("unknown command");
            std::process::exit(2);
        }
    }
}

fn run_property(prop: &str, tier: &str, seed: u64, only: Option<String>, write_evidence: bool) -> i32 {
    let t0 = Instant::now();
    let ctx = Ctx { prop: prop.to_string(), tier: tier.to_string(), seed, only: only.clone() };
    let Some((rep, meta)) = monitors::dispatch(&ctx) else {
        eprintln!("unknown property {}", prop);
        return 2;
    };
    let wall = t0.elapsed().as_secs_f64();
    let known = load_known();
    let vd = verif_dir();
    let _ = std::fs::create_dir_all(format!("{}/replays", vd));
    let _ = std::fs::create_dir_all(format!("{}/evidence", vd));

    // classify violations
    let mut new_viol = 0u64;
    let mut known_matched: Vec<String> = Vec::new();
    let mut printed_sigs: Vec<String> = Vec::new();
    let mut replay_files = 0;
    for v in &rep.violations {
        let open = known.iter().find(|k| {
            k["property"].as_str() == Some(prop)
                && k["status"].as_str() == Some("open")
                && k["signature"].as_str() == Some(v.sig.as_str())
        });
        if let Some(k) = open {
            if !known_matched.contains(&v.sig) {
                known_matched.push(v.sig.clone());
                println!(
                    "KNOWN-FINDING: property={} {} [{}] ({} occurrence(s) this run)",
                    prop,
                    k["what"].as_str().unwrap_or(""),
                    v.sig,
                    rep.viol_by_sig.get(&v.sig).unwrap_or(&0)
                );
            }
            continue;
        }
        new_viol += 1;
        if printed_sigs.contains(&v.sig) {
            continue;
        }
        printed_sigs.push(v.sig.clone());
        if replay_files < 20 {
            replay_files += 1;
            let h = util::hash_str(&format!("{}{}{}", v.sig, v.case_id, seed));
            let path = format!("{}/replays/{}-{:016x}.json", vd, prop, h);
            let body = json!({
                "property": prop, "tier": tier, "seed": seed, "case_id": v.case_id,
                "signature": v.sig, "message": v.msg, "case": v.case,
            });
            let _ = std::fs::write(&path, serde_json::to_string_pretty(&body).unwrap());
            println!("VIOLATION property={} replay={}", prop, path);
            println!("  signature={} count={} :: {}", v.sig, rep.viol_by_sig.get(&v.sig).unwrap_or(&0), v.msg);
        }
    }
    // violations beyond the stored ones (same signatures) still count
    let total_unknown: u64 = rep
        .viol_by_sig
        .iter()
        .filter(|(s, _)| {
            !known.iter().any(|k| {
                k["property"].as_str() == Some(prop)
                    && k["status"].as_str() == Some("open")
                    && k["signature"].as_str() == Some(s.as_str())
            })
        })
        .map(|(_, c)| *c)
        .sum();
    let new_viol = new_viol.max(total_unknown);

    // coverage floors
    let mut floor_fail: Vec<String> = Vec::new();
    if only.is_none() {
        for (k, minv) in &meta.floors {
            if rep.get(k) < *minv {
                floor_fail.push(format!("{}={} < {}", k, rep.get(k), minv));
            }
        }
        if (rep.nontrivial.len() as u64) < 2 {
            floor_fail.push(format!("distinct_nontrivial={} < 2", rep.nontrivial.len()));
        }
    }

    if write_evidence && only.is_none() {
        let mut cov = serde_json::Map::new();
        cov.insert("evaluations".into(), json!(rep.evaluations.max(1)));
        cov.insert("distinct_nontrivial".into(), json!(rep.nontrivial.len()));
        cov.insert("rule".into(), json!(meta.rule));
        cov.insert(
            "samples".into(),
            if rep.samples.is_empty() { json!([{"note": "no sample recorded"}]) } else { Value::Array(rep.samples.clone()) },
        );
        if let Some(e) = rep.exhaustive {
            cov.insert("exhaustive".into(), json!(e));
        }
        cov.insert("observed".into(), rep.observed_json());
        cov.insert("worst_observed".into(), rep.worst_json());
        cov.insert("thresholds".into(), meta.thresholds.clone());
        cov.insert("inconclusive".into(), json!(rep.inconclusive));
        cov.insert("known_findings_matched".into(), json!(known_matched));
        cov.insert("violations_by_signature".into(), json!(rep.viol_by_sig));
        cov.insert("harness_errors".into(), json!(rep.harness_errors));
        cov.insert("coverage_floors_failed".into(), json!(floor_fail));
        if !rep.notes.is_empty() {
            cov.insert("notes".into(), json!(rep.notes));
        }
        let ev = json!({
            "property_id": prop,
            "tier": tier,
            "seed": seed,
            "level": "exploration",
            "coverage": Value::Object(cov),
            "assumptions": meta.assumptions,
            "wall_s": wall,
            "violations": new_viol,
        });
        let path = format!("{}/evidence/{}.json", vd, prop);
        std::fs::write(&path, serde_json::to_string_pretty(&ev).unwrap()).expect("write evidence");
    }

    println!(
        "{} {} seed={} : evaluations={} distinct_nontrivial={} violations={} (known-finding signatures matched: {}) inconclusive={} wall={:.1}s",
        prop,
        tier,
        seed,
        rep.evaluations,
        rep.nontrivial.len(),
        new_viol,
        known_matched.len(),
        rep.inconclusive.values().sum::<u64>(),
        wall
    );
    for (k, v) in &rep.counters {
        println!("  observed {:<44} {}", k, v);
    }
    for (k, v) in &rep.worst {
        println!("  worst    {:<44} {:.4e}", k, v);
    }
    for (k, v) in &rep.inconclusive {
        println!("  inconclusive {:<40} {}", k, v);
    }
    if !rep.harness_errors.is_empty() {
        for e in &rep.harness_errors {
            println!("HARNESS-ERROR: {}", e);
        }
        return 2;
    }
    if new_viol > 0 {
        return 1;
    }
    if !floor_fail.is_empty() {
        println!("INCONCLUSIVE: coverage floors not met: {:?}", floor_fail);
        return 2;
    }
    0
}
