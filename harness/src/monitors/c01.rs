//! C01 — tolerance-controlled accuracy of every returned sample.

use super::common::*;
use crate::ctx::{Ctx, Meta};
use crate::gbs;
use crate::probe::*;
use crate::problems::*;
use crate::report::Report;
use crate::rng::Rng;
use crate::util::{par_for, slope};
use ivp::prelude::*;
use serde_json::json;

/// calibrated accuracy constants K_m: err <= K_m * A * naccpt * (atol + rtol |y|)
pub fn k_method(m: Method) -> f64 {
    match m {
        Method::RK23 => 1200.0,
        Method::DOPRI5 => 400.0,
        Method::DOP853 => 1.0e5, // single runs can hit a blind spot of the 8(5,3) estimator (3900 observed); the distribution clause carries the sensitivity
        Method::RADAU => 100.0,
        Method::BDF => 600.0,
        Method::RK4 => f64::INFINITY,
    }
}

/// bound on the 90 % quantile of the per-run worst ratio err / (A naccpt (atol + rtol|y|)), calibrated
pub fn q90_limit(m: Method) -> f64 {
    match m {
        Method::RK23 => 2.0,
        Method::DOPRI5 => 0.35,
        Method::DOP853 => 0.6,
        Method::RADAU => 0.6,
        Method::BDF => 2.5,
        Method::RK4 => f64::INFINITY,
    }
}

/// bound on the 99 % quantile (4x the value observed on the unchanged tree)
pub fn q99_limit(m: Method) -> f64 {
    match m {
        Method::RK23 => 16.0,
        Method::DOPRI5 => 3.0,
        Method::DOP853 => 7.5,
        Method::RADAU => 5.5,
        Method::BDF => 20.0,
        Method::RK4 => f64::INFINITY,
    }
}

/// random smooth dissipative vector field  y' = -D y + S tanh(W y + b) + c sin(om t + ph)
pub struct Dissipative {
    pub n: usize,
    pub d: Vec<f64>,
    pub s: Vec<Vec<f64>>,
    pub w: Vec<Vec<f64>>,
    pub b: Vec<f64>,
    pub c: Vec<f64>,
    pub om: Vec<f64>,
    pub ph: Vec<f64>,
}
impl Dissipative {
    pub fn random(rng: &mut Rng, n: usize) -> Self {
        let d: Vec<f64> = (0..n).map(|_| rng.range(0.6, 2.5)).collect();
        let dmin = d.iter().cloned().fold(f64::INFINITY, f64::min);
        // ||S|| ||W|| < dmin: scale random matrices so that the row sums stay below sqrt(0.5 dmin)
        let lim = (0.5 * dmin).sqrt();
        let mk = |rng: &mut Rng| -> Vec<Vec<f64>> {
            (0..n)
                .map(|_| {
                    let r: Vec<f64> = (0..n).map(|_| rng.range(-1.0, 1.0)).collect();
                    let s: f64 = r.iter().map(|v| v.abs()).sum::<f64>().max(1e-9);
                    r.iter().map(|v| v * lim / s * 0.9).collect()
                })
                .collect()
        };
        Dissipative {
            n,
            d,
            s: mk(rng),
            w: mk(rng),
            b: (0..n).map(|_| rng.range(-1.0, 1.0)).collect(),
            c: (0..n).map(|_| rng.range(-1.0, 1.0)).collect(),
            om: (0..n).map(|_| rng.range(0.3, 3.0)).collect(),
            ph: (0..n).map(|_| rng.range(0.0, 6.0)).collect(),
        }
    }
}
impl Problem for Dissipative {
    fn dim(&self) -> usize {
        self.n
    }
    fn f(&self, t: f64, y: &[f64], dy: &mut [f64]) {
        let n = self.n;
        let mut th = vec![0.0; n];
        for i in 0..n {
            let mut z = self.b[i];
            for j in 0..n {
                z += self.w[i][j] * y[j];
            }
            th[i] = z.tanh();
        }
        for i in 0..n {
            let mut v = -self.d[i] * y[i] + self.c[i] * (self.om[i] * t + self.ph[i]).sin();
            for j in 0..n {
                v += self.s[i][j] * th[j];
            }
            dy[i] = v;
        }
    }
    fn jac_dense(&self, _t: f64, y: &[f64]) -> Option<Vec<Vec<f64>>> {
        let n = self.n;
        let mut sech2 = vec![0.0; n];
        for i in 0..n {
            let mut z = self.b[i];
            for j in 0..n {
                z += self.w[i][j] * y[j];
            }
            let t = z.tanh();
            sech2[i] = 1.0 - t * t;
        }
        let mut j = vec![vec![0.0; n]; n];
        for i in 0..n {
            for k in 0..n {
                let mut v = 0.0;
                for l in 0..n {
                    v += self.s[i][l] * sech2[l] * self.w[l][k];
                }
                j[i][k] = v;
            }
            j[i][i] -= self.d[i];
        }
        Some(j)
    }
    fn describe(&self) -> serde_json::Value {
        json!({"family": "dissipative_random_field", "n": self.n, "D": self.d})
    }
}

/// The same problem on a time axis compressed by w (a power of two): y(t) = u(w t), y' = w f(w t, y). For a correct
/// solver the run is the unscaled run with every time divided by w (all operations scale exactly), so the error measured
/// in units of the tolerance has the same distribution; anything that mixes |y'| into a quantity that should depend on |y|
/// (an error scale, a norm) shows as a factor w. w = 1 is the plain problem, bit for bit.
pub struct Scaled {
    pub inner: Composite,
    pub w: f64,
}
impl Scaled {
    pub fn y0(&self) -> Vec<f64> {
        self.inner.y0()
    }
}
impl Problem for Scaled {
    fn dim(&self) -> usize {
        self.inner.dim()
    }
    fn f(&self, t: f64, y: &[f64], dy: &mut [f64]) {
        self.inner.f(self.w * t, y, dy);
        if self.w != 1.0 {
            for v in dy.iter_mut() {
                *v *= self.w;
            }
        }
    }
    fn exact(&self, t: f64) -> Option<Vec<f64>> {
        self.inner.exact(self.w * t)
    }
    fn jac_dense(&self, t: f64, y: &[f64]) -> Option<Vec<Vec<f64>>> {
        self.inner.jac_dense(self.w * t, y).map(|mut j| {
            if self.w != 1.0 {
                for r in j.iter_mut() {
                    for v in r.iter_mut() {
                        *v *= self.w;
                    }
                }
            }
            j
        })
    }
    fn describe(&self) -> serde_json::Value {
        let mut d = self.inner.describe();
        d["time_axis_compressed_by"] = json!(self.w);
        d
    }
}

fn err_ratio(y: &[f64], ex: &[f64], rtol: &Tol, atol: &Tol, denom_extra: f64) -> f64 {
    let mut r: f64 = 0.0;
    for j in 0..y.len() {
        let sc = atol.at(j) + rtol.at(j) * ex[j].abs();
        r = r.max((y[j] - ex[j]).abs() / (sc * denom_extra));
    }
    r
}

pub fn run(ctx: &Ctx) -> (Report, Meta) {
    let meta = Meta::new(
        "(a) closed-form problems (linear blocks with prescribed spectrum, logistic, Riccati tan/tanh, Bernoulli, rational, Prothero-Robinson; smooth time warps; well-conditioned linear mixings; dim 1..8) x 5 error-controlled methods x both directions x rtol 1e-3..1e-11 x {scalar, per-component, pure absolute rtol=0, pure relative atol=0 on solutions bounded away from 0} x {all accepted steps, t_eval}: every returned sample against the exact solution with bound K_m * A * naccpt * (atol + rtol|y|), A = amplification factor computed from the exact sensitivity; (b) tolerance ladders (9 tolerances per problem): fitted slope of log err vs log tol and one-decade regressions; (c) RK4 global order under step halving incl. steps that do not divide the span; (d) random smooth dissipative vector fields (dim 1..8) against an independent, self-certifying Gragg-Bulirsch-Stoer reference; non-trivial = run with >= 5 accepted steps and a reference available (distinct by scenario hash)",
    )
    .assume("closed-form solutions evaluated in f64; amplification factor from the closed-form sensitivity d u(t)/d u0, times cond(P) of the mixing")
    .assume("K_m calibrated on the unchanged tree (>= 10x the worst ratio observed over >= 5 seeds at the thorough tier); GBS reference accepted only if the H and H/2 runs agree to 1e-12")
    .thresholds(json!({"K_RK23": k_method(Method::RK23), "K_DOPRI5": k_method(Method::DOPRI5), "K_DOP853": k_method(Method::DOP853), "K_RADAU": k_method(Method::RADAU), "K_BDF": k_method(Method::BDF), "q90_limits (3x the value observed on the unchanged tree, stable to +-20% over seeds)": {"RK23": 2.0, "DOPRI5": 0.35, "DOP853": 0.6, "RADAU": 0.6, "BDF": 2.5}, "ladder_slope_min (secant over >= 3 decades)": 0.4, "one_decade_regression": "error x5 while the tighter run is above half its bound", "rk4_order_min": 3.6}))
    .floor("samples_checked", 20000)
    .floor("runs_checked", 1200)
    .floor("ladders_checked", 40)
    .floor("rk4_order_fits", 20)
    .floor("random_field_runs_checked", 60)
    .floor("runs_pure_absolute", 60)
    .floor("runs_pure_relative", 60);

    // ------------------------------------------------------------------ (a) closed form sweep
    let n = ctx.size(80_000, 2_000_000);
    let rep = par_for(n, "C01", |i, rep| {
        let case_id = format!("closed/{}", i);
        if !ctx.want(&case_id) {
            return;
        }
        let mut rng = Rng::derive(ctx.seed, 1, i as u64);
        let method = ADAPTIVE[i % 5];
        let m = mname(method);
        let dirn = rng.sign();
        // one case in five lives on a time axis compressed by w = 2^4 .. 2^20 (x0 = 0 so that the scaling is exact)
        let fast = (i / 40) % 5 == 4;
        let wscale: f64 = if fast { (2.0f64).powi(4 + rng.below(17) as i32) } else { 1.0 };
        let x0 = match rng.below(4) {
            0 => 0.0,
            1 => rng.range(-2.0, 2.0),
            2 => rng.sign() * rng.range(3.0, 30.0),
            _ => 1.0,
        };
        let x0 = if fast { 0.0 } else { x0 };
        let span = rng.logu(0.2, 12.0);
        let xend = x0 + dirn * span;
        let mode = (i / 5) % 8; // 0,1 scalar  2 vector  3 pure absolute  4 pure relative  5 scalar + t_eval  6 scalar rtol + vector atol  7 vector rtol + scalar atol
        let (prob, amp) = if mode == 4 {
            // solutions bounded away from zero: positive unmixed bases
            let mut bases = Vec::new();
            let nb = 1 + rng.below(4);
            for _ in 0..nb {
                bases.push(match rng.below(4) {
                    0 => Base::Logistic { r: dirn * rng.range(0.3, 2.0), k: rng.range(1.0, 3.0), u0: rng.range(0.3, 0.8) },
                    1 => Base::Bern { a: rng.range(0.5, 1.5), b: rng.range(0.4, 1.2), u0: rng.range(0.3, 0.7) },
                    2 => Base::Lin1 { lam: -dirn * rng.range(0.05, 0.6), u0: rng.range(0.5, 2.0) },
                    _ => Base::Rat { u0: rng.range(0.3, 1.0) },
                });
            }
            let c = Composite::new(bases, Warp::Id, None, x0);
            if !c.regular(xend) {
                rep.inconclusive("pure_relative_problem_not_regular");
                return;
            }
            let a = c.amplification(xend);
            if a > 30.0 {
                rep.inconclusive("pure_relative_problem_amplifies");
                return;
            }
            // magnitude must stay well away from zero
            let umin = (0..=16).map(|k| c.exact(x0 + (xend - x0) * k as f64 / 16.0).unwrap().iter().fold(f64::INFINITY, |mn, v| mn.min(v.abs()))).fold(f64::INFINITY, f64::min);
            if umin < 0.02 {
                rep.inconclusive("pure_relative_solution_near_zero");
                return;
            }
            (c, a)
        } else {
            random_composite(&mut rng, x0, xend, 8, 30.0)
        };
        let prob = Scaled { inner: prob, w: wscale };
        let (x0, xend) = (x0 / wscale, xend / wscale);
        let nn = prob.dim();
        let lo_tol: f64 = match method {
            Method::RK23 => 1e-8,
            Method::BDF => 1e-9,
            _ => 1e-11,
        };
        let rt = rng.logu(lo_tol, 1e-3);
        let at = rt * rng.logu(1e-3, 1.0);
        let mut scn = Scn::new(method, x0, xend, prob.y0());
        match mode {
            2 => {
                scn.rtol = Tol::V((0..nn).map(|_| rt * rng.range(0.5, 2.0)).collect());
                scn.atol = Tol::V((0..nn).map(|_| at * rng.range(0.5, 2.0)).collect());
            }
            3 => {
                scn.rtol = Tol::S(0.0);
                scn.atol = Tol::S(rt);
            }
            6 => {
                scn.rtol = Tol::S(rt);
                scn.atol = Tol::V((0..nn).map(|_| at * rng.range(0.5, 2.0)).collect());
            }
            7 => {
                scn.rtol = Tol::V((0..nn).map(|_| rt * rng.range(0.5, 2.0)).collect());
                scn.atol = Tol::S(at);
            }
            4 => {
                scn.rtol = Tol::S(rt);
                scn.atol = Tol::S(0.0);
            }
            _ => {
                scn.rtol = Tol::S(rt);
                scn.atol = Tol::S(at);
            }
        }
        scn.user_jac = is_implicit(method) && rng.bool();
        scn.budget = 3_000_000;
        if mode == 5 || rng.chance(0.15) {
            let k = 3 + rng.below(20);
            let mut te: Vec<f64> = (0..k).map(|_| x0 + (xend - x0) * rng.f()).collect();
            te.push(xend);
            te.sort_by(|a, b| a.partial_cmp(b).unwrap());
            if dirn < 0.0 {
                te.reverse();
            }
            te.dedup();
            scn.t_eval = Some(te);
        }
        let res = run_solve(&prob, &scn, false, false);
        rep.eval();
        let mut case = scn.describe(&prob);
        case["amplification"] = json!(amp);
        let cls = ["scalar_tol", "scalar_tol", "vector_tol", "pure_absolute", "pure_relative", "t_eval", "scalar_rtol_vector_atol", "vector_rtol_scalar_atol"][mode];
        let sol = match &res.out {
            Outcome::Ok(s) => s,
            Outcome::Budget => {
                rep.inconclusive("evaluation_budget_exhausted");
                return;
            }
            Outcome::Panic(msg) => {
                rep.violate(&format!("C01/no_panic/{}/{}", m, cls), format!("panic: {}", msg), &case_id, case);
                return;
            }
            Outcome::Err(e) => {
                rep.violate(&format!("C01/valid_configuration_refused/{}/{}", m, cls), format!("solve_ivp returned {} for a valid configuration", e), &case_id, case);
                return;
            }
        };
        if sol.status != Status::Success {
            rep.violate(&format!("C01/smooth_problem_not_solved/{}/{}", m, cls), format!("status {:?} on a smooth, well-conditioned problem", sol.status), &case_id, case);
            return;
        }
        rep.count("runs_checked", 1);
        if mode == 3 {
            rep.count("runs_pure_absolute", 1);
        }
        if mode == 4 {
            rep.count("runs_pure_relative", 1);
        }
        if sol.naccpt >= 5 {
            rep.nontrivial(scn_hash(&scn, &prob));
        }
        let km = k_method(method);
        let mut worst: f64 = 0.0;
        for (k, &t) in sol.t.iter().enumerate() {
            let ex = prob.exact(t).unwrap();
            let r = err_ratio(&sol.y[k], &ex, &scn.rtol, &scn.atol, amp * sol.naccpt.max(1) as f64);
            worst = worst.max(r);
        }
        rep.count("samples_checked", sol.t.len() as u64);
        rep.worst(&format!("err_over_A_naccpt_tol_{}", m), worst);
        rep.worst(&format!("err_over_A_naccpt_tol_{}_{}", m, cls), worst);
        rep.push(&format!("ratio_{}{}", if fast { "fast_" } else { "" }, m), worst);
        if fast {
            rep.count("runs_on_a_compressed_time_axis", 1);
            rep.worst(&format!("err_over_A_naccpt_tol_{}_compressed_time_axis", m), worst);
        }
        if !(worst <= km) {
            case["worst_ratio"] = json!(worst);
            case["naccpt"] = json!(sol.naccpt);
            // Radau's automatic first step is the absolute constant 1e-6 (RADAU5's default), the one quantity in this family
            // that does not scale with the time axis: on an axis compressed by w it is a first step of 1e-6 w in the units of
            // the problem. If the exactly scaled default (first_step = 1e-6 / w ... i.e. 1e-6 in problem units) meets the
            // bound, the violation is the known finding "absolute default first step"; otherwise it is an ordinary one.
            let mut known_first_step = false;
            if fast && method == Method::RADAU && scn.first_step.is_none() && 1e-6 * wscale >= 0.01 {
                let mut twin = scn.clone();
                twin.first_step = Some(dirn * 1e-6 / wscale);
                if let Outcome::Ok(ts) = run_solve(&prob, &twin, false, false).out {
                    if ts.status == Status::Success {
                        let mut wt: f64 = 0.0;
                        for (k, &t) in ts.t.iter().enumerate() {
                            let ex = prob.exact(t).unwrap();
                            wt = wt.max(err_ratio(&ts.y[k], &ex, &scn.rtol, &scn.atol, amp * ts.naccpt.max(1) as f64));
                        }
                        case["worst_ratio_with_scaled_default_first_step"] = json!(wt);
                        known_first_step = wt <= km;
                    }
                }
            }
            if known_first_step {
                rep.violate("C01/error_bound/RADAU/absolute_default_first_step_on_compressed_time_axis", format!("a returned sample has error {:.1} x A x naccpt x (atol + rtol|y|) (allowed {}); with first_step = 1e-6 / {} the same run meets the bound", worst, km, wscale), &case_id, case);
                return;
            }
            rep.violate(
                &format!("C01/error_bound/{}/{}{}_dim{}", m, cls, if fast { "_compressed_time_axis" } else { "" }, if nn == 1 { "1" } else if nn <= 3 { "2-3" } else { "4-8" }),
                format!("a returned sample has error {:.1} x A x naccpt x (atol + rtol|y|) (A = {:.2}, naccpt = {}), allowed {}", worst, amp, sol.naccpt, km),
                &case_id,
                case,
            );
        }
        if i % 991 == 0 {
            rep.sample(json!({"scenario": scn.describe(&prob), "amplification": amp, "naccpt": sol.naccpt, "worst_ratio": worst}));
        }
    });

    // ------------------------------------------------------------------ (b) tolerance ladders
    let nl = ctx.size(1_200, 20_000);
    let rep_b = par_for(nl, "C01", |i, rep| {
        let case_id = format!("ladder/{}", i);
        if !ctx.want(&case_id) {
            return;
        }
        let mut rng = Rng::derive(ctx.seed, 101, i as u64);
        let method = ADAPTIVE[i % 5];
        let m = mname(method);
        let dirn = rng.sign();
        let x0 = rng.range(-1.0, 1.0);
        let xend = x0 + dirn * rng.range(1.0, 8.0);
        let (prob, amp) = random_composite(&mut rng, x0, xend, 8, 20.0);
        let nn = prob.dim();
        let tols: Vec<f64> = match method {
            Method::RK23 => (0..=5).map(|k| 1e-3 * 10f64.powi(-k)).collect(),
            Method::BDF => (0..=6).map(|k| 1e-3 * 10f64.powi(-k)).collect(),
            _ => (0..=8).map(|k| 1e-3 * 10f64.powi(-k)).collect(),
        };
        let vector = rng.bool();
        let mut errs = Vec::new();
        let mut ratios = Vec::new();
        let yscale = (0..=8).map(|k| prob.exact(x0 + (xend - x0) * k as f64 / 8.0).unwrap().iter().fold(0.0f64, |mx, v| mx.max(v.abs()))).fold(1e-300, f64::max);
        for &tol in &tols {
            let mut scn = Scn::new(method, x0, xend, prob.y0());
            if vector {
                scn.rtol = Tol::V(vec![tol; nn]);
                scn.atol = Tol::V(vec![tol * 1e-2; nn]);
            } else {
                scn.rtol = Tol::S(tol);
                scn.atol = Tol::S(tol * 1e-2);
            }
            scn.user_jac = is_implicit(method);
            scn.budget = 5_000_000;
            let res = run_solve(&prob, &scn, false, false);
            rep.eval();
            match &res.out {
                Outcome::Ok(sol) if sol.status == Status::Success => {
                    let mut e: f64 = 0.0;
                    let mut r: f64 = 0.0;
                    for (k, &t) in sol.t.iter().enumerate() {
                        let ex = prob.exact(t).unwrap();
                        e = e.max(sol.y[k].iter().zip(&ex).fold(0.0f64, |mx, (a, b)| mx.max((a - b).abs())));
                        r = r.max(err_ratio(&sol.y[k], &ex, &scn.rtol, &scn.atol, amp * sol.naccpt.max(1) as f64));
                    }
                    errs.push(e);
                    ratios.push(r);
                }
                Outcome::Panic(msg) => {
                    rep.violate(&format!("C01/no_panic/{}/ladder", m), msg.clone(), &case_id, scn.describe(&prob));
                    return;
                }
                _ => {
                    rep.inconclusive("ladder_run_failed");
                    return;
                }
            }
        }
        rep.count("ladders_checked", 1);
        rep.nontrivial(crate::util::hash_str(&format!("ladder{}{}", i, ctx.seed)));
        let case = json!({"method": m, "problem": prob.describe(), "x0": x0, "xend": xend, "tolerances": tols, "errors": errs, "ratios_to_bound": ratios, "vector_tolerances": vector});
        // slope above the rounding floor
        let floor = 100.0 * f64::EPSILON * yscale * (1.0 + amp);
        // "shrinks roughly in proportion": secant slope of log err vs log tol between the first tolerance at which the
        // error is within a factor 1000 of its bound (an easy problem solved with the minimal number of steps cannot
        // improve before that) and the tightest tolerance above the rounding floor, over at least three decades.
        // (A least-squares fit over few points is dominated by the irregularity of single runs.)
        let first = (0..tols.len()).find(|&k| errs[k] > floor && ratios[k] >= 1e-3);
        let last = (0..tols.len()).rev().find(|&k| errs[k] > floor);
        if let (Some(a), Some(b)) = (first, last) {
            if b >= a + 3 {
                let s = (errs[a].ln() - errs[b].ln()) / (tols[a].ln() - tols[b].ln());
                rep.worst(&format!("ladder_slope_deficit_{}", m), 1.0 - s);
                rep.count("ladder_slopes_judged", 1);
                // verdict on the distribution (below): a single ladder may end in a blind spot of an estimator
                rep.push(&format!("ladder_slope_{}_{}", m, if nn >= 4 { "dim4-8" } else { "dim1-3" }), s);
                if s < -0.25 {
                    rep.violate(&format!("C01/ladder_slope/{}/{}", m, if nn >= 4 { "dim4-8" } else { "dim1-3" }), format!("errors GROW like tol^{:.2} between tol = {:e} and {:e} (dimension {})", s, tols[a], tols[b], nn), &case_id, case.clone());
                }
            }
        }
        for k in 1..tols.len() {
            if errs[k] > floor && errs[k] > 5.0 * errs[k - 1] && ratios[k] > 0.5 * k_method(method) {
                rep.violate(&format!("C01/tightening_increases_error/{}/ladder", m), format!("tightening the tolerance from {:e} to {:e} increased the error from {:e} to {:e}", tols[k - 1], tols[k], errs[k - 1], errs[k]), &case_id, case.clone());
                break;
            }
        }
    });

    // ------------------------------------------------------------------ (c) RK4 convergence
    // per-case slopes are fitted on the three finest step sizes; single problems are legitimately
    // irregular (sign changes of the error constant), so the verdict is taken per class on the median
    let nr = ctx.size(96, 6_000);
    let mut rep_c = Report::new("C01");
    let mut by_class: std::collections::BTreeMap<String, Vec<f64>> = std::collections::BTreeMap::new();
    for i in 0..nr {
        let case_id = format!("rk4/{}", i);
        if !ctx.want(&case_id) {
            continue;
        }
        let rep = &mut rep_c;
        let mut rng = Rng::derive(ctx.seed, 104, i as u64);
        let dirn = rng.sign();
        let x0 = rng.range(-1.0, 1.0);
        let span = rng.range(0.8, 3.0);
        let xend = x0 + dirn * span;
        let (mut prob, _amp) = random_composite(&mut rng, x0, xend, 3, 8.0);
        // always non-autonomous, so that stage times matter
        if matches!(prob.warp, Warp::Id) {
            prob.warp = Warp::Sin { a: rng.range(0.2, 0.5) * rng.sign(), b: rng.range(0.7, 2.0) };
            if !prob.regular(xend) || prob.amplification(xend) > 20.0 {
                rep.inconclusive("rk4_problem_not_regular_after_warp");
                continue;
            }
        }
        let dividing = i % 2 == 0;
        let base = if dividing { 8.0 } else { 7.0 + rng.range(0.2, 0.8) };
        let mut lh = Vec::new();
        let mut le = Vec::new();
        let with_teval = i % 3 == 0;
        let mut y0 = prob.y0();
        let _ = &mut y0;
        for k in 0..5 {
            let nst = base * 2f64.powi(k);
            let h = dirn * span / nst;
            let mut scn = Scn::new(Method::RK4, x0, xend, prob.y0());
            scn.first_step = Some(h);
            if with_teval {
                scn.t_eval = Some(vec![x0 + 0.37 * (xend - x0), xend]);
            }
            let res = run_solve(&prob, &scn, false, false);
            rep.eval();
            if let Outcome::Ok(sol) = &res.out {
                if sol.status == Status::Success && !sol.t.is_empty() {
                    let mut e: f64 = 0.0;
                    for (q, &t) in sol.t.iter().enumerate() {
                        let ex = prob.exact(t).unwrap();
                        e = e.max(sol.y[q].iter().zip(&ex).fold(0.0f64, |mx, (a, b)| mx.max((a - b).abs())));
                    }
                    if e > 1e-10 {
                        lh.push((span / nst).ln());
                        le.push(e.ln());
                    }
                }
            } else if let Outcome::Panic(msg) = &res.out {
                rep.violate("C01/no_panic/RK4/convergence", msg.clone(), &case_id, scn.describe(&prob));
            }
        }
        if lh.len() >= 4 {
            let k0 = lh.len() - 3;
            let s = slope(&lh[k0..], &le[k0..]);
            rep.count("rk4_order_fits", 1);
            rep.nontrivial(crate::util::hash_str(&format!("rk4{}{}", i, ctx.seed)));
            let cls = format!("{}{}", if dividing { "dividing_step" } else { "non_dividing_step" }, if with_teval { "_t_eval" } else { "" });
            by_class.entry(cls.clone()).or_default().push(s);
            let _ = (&case_id, &le); // verdict per class on the median below (single problems are irregular)
        } else {
            rep.inconclusive("rk4_too_few_points");
        }
    }
    if ctx.only.is_none() {
        for (cls, mut v) in by_class {
            if v.len() < 4 {
                continue;
            }
            v.sort_by(|a, b| a.partial_cmp(b).unwrap());
            let med = v[v.len() / 2];
            rep_c.worst(&format!("rk4_median_order_deficit_{}", cls), 4.0 - med);
            if med < 3.6 {
                rep_c.violate(&format!("C01/rk4_fourth_order_median/RK4/{}", cls), format!("median fitted global order over {} problems is {:.2}", v.len(), med), &format!("rk4/median/{}", cls), json!({"class": cls, "slopes": v}));
            }
        }
    }

    // ------------------------------------------------------------------ (d) random dissipative fields vs GBS
    let nd = ctx.size(1_600, 20_000);
    let rep_d = par_for(nd, "C01", |i, rep| {
        let case_id = format!("field/{}", i);
        if !ctx.want(&case_id) {
            return;
        }
        let mut rng = Rng::derive(ctx.seed, 107, i as u64);
        let method = ADAPTIVE[i % 5];
        let m = mname(method);
        let nn = 1 + rng.below(8);
        let prob = Dissipative::random(&mut rng, nn);
        let x0 = rng.range(-1.0, 1.0);
        let xend = x0 + rng.range(1.0, 6.0); // forward: the dissipative direction
        let y0: Vec<f64> = (0..nn).map(|_| rng.range(-1.5, 1.5)).collect();
        let mut scn = Scn::new(method, x0, xend, y0.clone());
        let rt = rng.logu(if method == Method::RK23 { 1e-7 } else { 1e-9 }, 1e-3);
        scn.rtol = Tol::S(rt);
        scn.atol = Tol::S(rt * rng.logu(1e-2, 1.0));
        scn.user_jac = is_implicit(method) && rng.bool();
        scn.budget = 3_000_000;
        let res = run_solve(&prob, &scn, false, false);
        rep.eval();
        let case = scn.describe(&prob);
        let sol = match &res.out {
            Outcome::Ok(s) if s.status == Status::Success => s,
            Outcome::Panic(msg) => {
                rep.violate(&format!("C01/no_panic/{}/random_field", m), msg.clone(), &case_id, case);
                return;
            }
            Outcome::Ok(s) => {
                rep.violate(&format!("C01/smooth_problem_not_solved/{}/random_field", m), format!("status {:?} on a smooth dissipative problem", s.status), &case_id, case);
                return;
            }
            _ => {
                rep.inconclusive("field_run_failed");
                return;
            }
        };
        // reference at (a subset of) the returned times
        let stride = (sol.t.len() / 25).max(1);
        let idx: Vec<usize> = (1..sol.t.len()).filter(|k| k % stride == 0 || *k == sol.t.len() - 1).collect();
        let ts: Vec<f64> = idx.iter().map(|&k| sol.t[k]).collect();
        let f = |t: f64, y: &[f64], d: &mut [f64]| prob.f(t, y, d);
        let Some(reference) = gbs::reference(&f, x0, &y0, &ts, 0.1, 1e-12) else {
            rep.inconclusive("reference_integrator_not_certified");
            return;
        };
        rep.count("random_field_runs_checked", 1);
        if sol.naccpt >= 5 {
            rep.nontrivial(scn_hash(&scn, &prob));
        }
        let mut worst: f64 = 0.0;
        for (q, &k) in idx.iter().enumerate() {
            worst = worst.max(err_ratio(&sol.y[k], &reference[q], &scn.rtol, &scn.atol, sol.naccpt.max(1) as f64));
        }
        rep.count("samples_checked", idx.len() as u64);
        rep.worst(&format!("field_err_over_naccpt_tol_{}", m), worst);
        if !(worst <= k_method(method)) {
            rep.violate(&format!("C01/error_bound/{}/random_field", m), format!("error {:.1} x naccpt x (atol + rtol|y|) against the independent reference (allowed {})", worst, k_method(method)), &case_id, case);
        }
    });
    let mut rep = rep;
    rep.merge(rep_b);
    rep.merge(rep_c);
    rep.merge(rep_d);
    // distribution clause: single runs may hit a blind spot of an error estimator (DOP853's estimate
    // err5^2/sqrt(err5^2 + 0.01 err3^2) collapses when err5 happens to cross zero), but the bulk of the runs
    // must sit at the tolerance level: the 90 % quantile of the per-run worst ratio is bounded per method
    if ctx.only.is_none() {
        // ladder slopes: the lower decile per method and dimension class must show errors shrinking with the tolerance
        for &m in ADAPTIVE.iter() {
            for dc in ["dim1-3", "dim4-8"] {
                let key = format!("ladder_slope_{}_{}", mname(m), dc);
                let nl = rep.series.get(&key).map(|v| v.len()).unwrap_or(0);
                if nl >= 10 {
                    let q10 = rep.quantile(&key, 0.1).unwrap();
                    let q50 = rep.quantile(&key, 0.5).unwrap();
                    rep.worst(&format!("ladder_slope_q10_deficit_{}_{}", mname(m), dc), 1.0 - q10);
                    if q10 < 0.55 {
                        rep.violate(&format!("C01/ladder_slope/{}/{}", mname(m), dc), format!("tightening the tolerance does not shrink the error in proportion: lower decile of the ladder slopes is {:.2} (median {:.2}, {} ladders)", q10, q50, nl), &format!("ladderq/{}/{}", mname(m), dc), json!({"method": mname(m), "q10": q10, "q50": q50, "ladders": nl}));
                    }
                }
            }
        }
        for (&m, fam) in ADAPTIVE.iter().flat_map(|m| [(m, ""), (m, "fast_")]) {
            // the runs on a compressed time axis are the same runs up to an exact scaling: same limits, separate series
            let key = format!("ratio_{}{}", fam, mname(m));
            let mname = |m: Method| format!("{}{}", mname(m), if fam.is_empty() { "" } else { "_compressed_time_axis" });
            if let (Some(q90), Some(q50)) = (rep.quantile(&key, 0.9), rep.quantile(&key, 0.5)) {
                if let Some(q99) = rep.quantile(&key, 0.99) {
                    rep.worst(&format!("ratio_q99_{}", mname(m)), q99);
                }
                rep.worst(&format!("ratio_q90_{}", mname(m)), q90);
                rep.worst(&format!("ratio_q50_{}", mname(m)), q50);
                if let Some(q99) = rep.quantile(&key, 0.99) {
                    let lim99 = q99_limit(m);
                    if q99 > lim99 {
                        rep.violate(&format!("C01/error_distribution/{}/q99", mname(m)), format!("99 % of the runs should have err <= {} x A x naccpt x (atol + rtol|y|) but the 99 % quantile is {:.2}", lim99, q99), &format!("quantile99/{}", mname(m)), json!({"method": mname(m), "q99": q99, "q90": q90, "q50": q50}));
                    }
                }
                let lim = q90_limit(m);
                if q90 > lim {
                    rep.violate(&format!("C01/error_distribution/{}/q90", mname(m)), format!("90 % of the runs should have err <= {} x A x naccpt x (atol + rtol|y|) but the 90 % quantile is {:.2} (median {:.2})", lim, q90, q50), &format!("quantile/{}", mname(m)), json!({"method": mname(m), "q90": q90, "q50": q50, "runs": rep.series.get(&key).map(|v| v.len())}));
                }
            }
        }
    }
    (rep, meta)
}

#[allow(dead_code)]
pub fn debug_dop853() {
    let bases = vec![
        Base::PR { lam: -1.8733621807764245, om: 3.4123798700470758, u0: -0.44219300807687656 },
        Base::Rot { a: -0.25525159377533196, w: 0.7497776621052811, u0: [-0.24676224512617084, 0.34818156413581036] },
        Base::Rot { a: -0.3019578343909481, w: 0.6821397550295301, u0: [-0.10332324504007184, 0.6491041566197022] },
        Base::Tanh { a: 0.632964525094744, u0: 0.4184639993405271 },
    ];
    let x0 = -0.5908077916519481;
    let xend = 3.4952289011927897;
    let prob = Composite::new(bases, Warp::Id, None, x0);
    for m in [Method::DOP853, Method::DOPRI5] {
        for tol in [1e-9, 1e-10, 1e-11] {
            let mut scn = Scn::new(m, x0, xend, prob.y0());
            scn.rtol = Tol::V(vec![tol; 6]);
            scn.atol = Tol::V(vec![tol * 1e-2; 6]);
            let r = run_solve(&prob, &scn, false, false);
            let sol = r.out.sol().unwrap();
            println!("{} tol {:e}: naccpt {} nrejct {} nfev {}", mname(m), tol, sol.naccpt, sol.nrejct, sol.nfev);
            for (k, &t) in sol.t.iter().enumerate() {
                let ex = prob.exact(t).unwrap();
                let e = sol.y[k].iter().zip(&ex).fold(0.0f64, |mx, (a, b)| mx.max((a - b).abs()));
                if m == Method::DOP853 {
                    println!("   t={:9.5} h={:9.3e} err={:9.3e} ({:8.1} tol)", t, if k > 0 { t - sol.t[k - 1] } else { 0.0 }, e, e / tol);
                }
            }
        }
    }
}

#[allow(dead_code)]
pub fn debug_case(seed: u64, i: usize) {
    // regenerates closed/<i> exactly as the sweep does and prints the error along the run
    let mut rng = Rng::derive(seed, 1, i as u64);
    let method = ADAPTIVE[i % 5];
    let dirn = rng.sign();
    let x0 = match rng.below(4) {
        0 => 0.0,
        1 => rng.range(-2.0, 2.0),
        2 => rng.sign() * rng.range(3.0, 30.0),
        _ => 1.0,
    };
    let span = rng.logu(0.2, 12.0);
    let xend = x0 + dirn * span;
    let mode = (i / 5) % 8;
    assert!(mode != 4);
    let (prob, amp) = random_composite(&mut rng, x0, xend, 8, 30.0);
    let nn = prob.dim();
    let lo_tol: f64 = match method {
        Method::RK23 => 1e-8,
        Method::BDF => 1e-9,
        _ => 1e-11,
    };
    let rt = rng.logu(lo_tol, 1e-3);
    let at = rt * rng.logu(1e-3, 1.0);
    let mut scn = Scn::new(method, x0, xend, prob.y0());
    match mode {
        2 => {
            scn.rtol = Tol::V((0..nn).map(|_| rt * rng.range(0.5, 2.0)).collect());
            scn.atol = Tol::V((0..nn).map(|_| at * rng.range(0.5, 2.0)).collect());
        }
        3 => {
            scn.rtol = Tol::S(0.0);
            scn.atol = Tol::S(rt);
        }
        6 => {
            scn.rtol = Tol::S(rt);
            scn.atol = Tol::V((0..nn).map(|_| at * rng.range(0.5, 2.0)).collect());
        }
        7 => {
            scn.rtol = Tol::V((0..nn).map(|_| rt * rng.range(0.5, 2.0)).collect());
            scn.atol = Tol::S(at);
        }
        _ => {
            scn.rtol = Tol::S(rt);
            scn.atol = Tol::S(at);
        }
    }
    println!("{} amp {} {}", mname(method), amp, scn.describe(&prob));
    for m in [method, Method::DOPRI5] {
        scn.method = m;
        let r = run_solve(&prob, &scn, false, false);
        let sol = r.out.sol().unwrap();
        println!("{}: naccpt {} nrejct {} nfev {}", mname(m), sol.naccpt, sol.nrejct, sol.nfev);
        if m == method {
            for (k, &t) in sol.t.iter().enumerate() {
                let ex = prob.exact(t).unwrap();
                let e = sol.y[k].iter().zip(&ex).fold(0.0f64, |mx, (a, b)| mx.max((a - b).abs()));
                println!("   t={:9.5} h={:10.3e} err={:9.3e} y0={:9.3e}", t, if k > 0 { t - sol.t[k - 1] } else { 0.0 }, e, ex[0]);
            }
        }
    }
}
