//! C02 — each method attains its advertised order.
//! (1) tableau extraction + complete rooted-tree order conditions; (2) embedded estimator through
//! accept/reject on tree-scripted inputs, polynomial quadrature, measured estimator size T(h);
//! (3) empirical local order, Radau vs the (2,3) Pade approximant, naccpt(tol) scaling.

use crate::ctx::{Ctx, Meta};
use crate::extract::*;
use crate::probe::*;
use crate::problems::*;
use crate::report::Report;
use crate::rng::Rng;
use crate::trees::Forest;
use crate::util::{hash_str, slope};
use ivp::prelude::*;
use serde_json::json;
use std::cell::RefCell;

pub fn order_of(m: Method) -> usize {
    match m {
        Method::RK4 => 4,
        Method::RK23 => 3,
        Method::DOPRI5 => 5,
        Method::DOP853 => 8,
        Method::RADAU => 5,
        Method::BDF => 1,
    }
}
pub const EXPLICIT: [Method; 4] = [Method::RK4, Method::RK23, Method::DOPRI5, Method::DOP853];

/// variants of the extraction run: (x0, h, step, clip)
pub fn variants() -> Vec<(f64, f64, usize, Option<f64>)> {
    vec![
        (0.0, 1.0, 1, None),
        (0.0, -1.0, 1, None),
        (3.0, 0.5, 2, None),
        (-2.0, -0.25, 3, None),
        (0.0, 1.0, 1, Some(0.5)),
        (1.0, -2.0, 1, Some(0.25)),
        (0.0, 1.0, 2, None),
        (5.0, -1.0, 2, None),
    ]
}

/// one scalar scripted step: call j answered with vals[j] (0 beyond); returns (accepted_at_full_h, calls)
fn scripted_scalar_step(m: Method, vals: &[f64], atol: f64) -> Result<bool, String> {
    // both signs of h: the estimator must behave the same for a backward step
    let fwd = scripted_scalar_step_dir(m, vals, atol, 1.0)?;
    let bwd = scripted_scalar_step_dir(m, vals, atol, -1.0)?;
    if fwd != bwd {
        return Err(format!("the step is {} forward but {} backward", if fwd { "accepted" } else { "rejected" }, if bwd { "accepted" } else { "rejected" }));
    }
    Ok(fwd)
}

fn scripted_scalar_step_dir(m: Method, vals: &[f64], atol: f64, dir: f64) -> Result<bool, String> {
    let v = vals.to_vec();
    let f = Scripted {
        n: 1,
        answers: Box::new(move |j: usize, d: &mut [f64]| {
            d[0] = if j < v.len() { v[j] } else { 0.0 };
        }),
        calls: RefCell::new(Vec::new()),
    };
    let lo = LowOpts { first_step: Some(dir), dense: false, ..Default::default() };
    let mut rec = Rec { f: &f, thetas: vec![], steps: Vec::new(), modify_at: None, xout_at0: None };
    run_low(m, &f, 0.0, &[0.0], dir, &Tol::S(0.0), &Tol::S(atol), &lo, &mut rec)?;
    if rec.steps.len() < 2 {
        return Err("no step was completed".into());
    }
    let per_nodense = match m {
        Method::RK23 => 3,
        Method::DOPRI5 => 6,
        Method::DOP853 => 12,
        _ => 0,
    };
    Ok(rec.steps[1].x == dir && rec.steps[1].calls_at_entry == 1 + per_nodense)
}

/// Is the first step of size h from exact data accepted with absolute tolerance atol (rtol = 0)?
fn first_step_accepted(m: Method, p: &Composite, x0: f64, h: f64, atol: f64) -> Option<bool> {
    let probe = Probe::new(p, x0);
    let lo = LowOpts { first_step: Some(h), dense: false, ..Default::default() };
    let mut so = RecSolOut::new(Some(&probe));
    let y0 = p.exact(x0).unwrap();
    match run_low_guarded(m, &probe, x0, &y0, x0 + h, &Tol::S(0.0), &Tol::S(atol), &lo, &mut so) {
        LowOutcome::Ok(_) => {
            if so.cbs.len() < 2 {
                return None;
            }
            Some((so.cbs[1].x - (x0 + h)).abs() <= 4.0 * f64::EPSILON * (x0.abs() + h.abs()))
        }
        _ => None,
    }
}

pub fn run(ctx: &Ctx) -> (Report, Meta) {
    let res_tol = 2e-13;
    let meta = Meta::new(
        "(1) for RK4, RK23, DOPRI5, DOP853 the extended Butcher tableau (every evaluation of a step incl. FSAL and dense stages) is extracted from the real stepper in 13 variants (first / second / third step of a run, both signs of h, x0 != 0, steps clipped by xend, and the step that follows a ModifiedSolution answer of the callback) and checked against ALL rooted-tree order conditions up to order p (8 trees for p=4 ... 200 trees for p=8), row sums = c, consistency between variants, and non-vacuity (some tree of order p+1 fails); (2) the embedded estimator is probed with a scalar scripted right-hand side answering stage j with the elementary weight Phi_j(t): steps must be accepted for every tree of order <= q^ and rejected for some tree of order q^+1; polynomial quadratures y' = k t^(k-1); estimator size T(h) measured by bisection on atol, slope q^+1; (3) local error slopes of one step from exact data on closed-form nonlinear problems (both signs of h), one Radau step on y' = lambda y and 2x2 rotation-decay systems vs the (2,3) Pade approximant for real and complex z, fitted exponent of naccpt(tol); non-trivial = (method, variant or tree or problem, h) obligation that was actually evaluated (distinct by hash)",
    )
    .assume("Butcher's order-condition theory: a Runge-Kutta method has order p iff sum_i b_i Phi_i(t) = 1/gamma(t) for all rooted trees of order <= p")
    .assume("extraction arithmetic is exact: y0 = 0, |h| a power of two, unit-vector answers")
    .thresholds(json!({"order_condition_residual": res_tol, "row_sum": 1e-14, "empirical_order_median_margin": {"RK4": 0.6, "RK23": 0.6, "DOPRI5": 0.6, "RADAU": 0.6, "DOP853": 1.5}, "empirical_order_lower_quartile_margin": {"RK4": 0.5, "RK23": 0.5, "DOPRI5": 0.8, "RADAU": 0.5, "DOP853": 1.5}, "pade_rel": 1e-12, "estimator_slope_tol": [0.4, 0.6], "steps_exponent_range": "[-1.35/q, -0.55/q]"}))
    .floor("order_conditions_checked", 500)
    .floor("tableau_variants_extracted", 20)
    .floor("estimator_tree_probes", 50)
    .floor("local_order_slopes_fitted", 12)
    .floor("pade_points_checked", 30)
    .floor("step_count_exponents_fitted", 3);
    let mut rep = Report::new("C02");

    // ------------------------------------------------------------------ (1) extraction
    let forest = Forest::new(9);
    let thetas: Vec<f64> = vec![];
    let mut base_tab: Vec<Option<Tableau>> = Vec::new();
    for &m in EXPLICIT.iter() {
        let p = order_of(m);
        let mname_ = mname(m);
        let mut first: Option<Tableau> = None;
        // every variant as it is, then four of them with a ModifiedSolution answer (state rewritten unchanged) at the
        // callback that precedes the extracted step: the step after a modification is a Runge-Kutta step like any other
        let mut vlist: Vec<(f64, f64, usize, Option<f64>, bool)> = variants().iter().map(|&(a, b, c, d)| (a, b, c, d, false)).collect();
        for &(a, b, c, d) in &[(0.0, 1.0, 1usize, None), (0.0, -1.0, 2, None), (3.0, 0.5, 2, None), (-2.0, -0.25, 3, None), (1.0, -2.0, 1, Some(0.25))] {
            vlist.push((a, b, c, d, true));
        }
        for (vi, &(x0, h, step, clip, modify)) in vlist.iter().enumerate() {
            let case_id = format!("extract/{}/{}", mname_, vi);
            if !ctx.want(&case_id) {
                continue;
            }
            let vdesc = json!({"method": mname_, "x0": x0, "h": h, "step_index": step, "clipped_to": clip, "modified_solution_before_step": modify});
            let cls = format!("{}{}{}", if step > 1 { "later_step" } else { "first_step" }, if h < 0.0 { "_backward" } else { "" }, if clip.is_some() { "_clipped" } else { "" }) + if modify { "_after_modified_solution" } else { "" };
            rep.eval();
            if modify {
                rep.count("tableau_variants_after_modified_solution", 1);
            }
            let t = match std::panic::catch_unwind(|| extract_ex(m, x0, h, step, clip, &thetas, modify)) {
                Ok(Ok(t)) => t,
                Ok(Err(e)) => {
                    rep.violate(&format!("C02/tableau_extraction/{}/{}", mname_, cls), format!("the stepper did not behave like a Runge-Kutta step with the scripted right-hand side: {}", e), &case_id, vdesc);
                    continue;
                }
                Err(pn) => {
                    rep.violate(&format!("C02/no_panic/{}/{}", mname_, cls), crate::probe::panic_message(&pn), &case_id, vdesc);
                    continue;
                }
            };
            rep.count("tableau_variants_extracted", 1);
            rep.nontrivial(hash_str(&case_id));
            // row sums
            for i in 0..t.s {
                let rs: f64 = t.a[i].iter().sum();
                if (rs - t.c[i]).abs() > 1e-14 * (1.0 + t.a[i].iter().map(|v| v.abs()).sum::<f64>()) {
                    rep.violate(&format!("C02/row_sum_eq_c/{}/{}", mname_, cls), format!("stage {}: sum_j a_ij = {:e} but the stage time corresponds to c = {:e}", i, rs, t.c[i]), &case_id, vdesc.clone());
                }
            }
            // order conditions
            let phi = forest.weights(&t.a);
            let mut worst: f64 = 0.0;
            for ord in 1..=p {
                for &tid in &forest.by_order[ord] {
                    let lhs: f64 = (0..t.s).map(|i| t.b[i] * phi[tid][i]).sum();
                    let cond: f64 = (0..t.s).map(|i| (t.b[i] * phi[tid][i]).abs()).sum::<f64>().max(1.0);
                    let r = (lhs - 1.0 / forest.trees[tid].gamma).abs() / cond;
                    worst = worst.max(r);
                    rep.count("order_conditions_checked", 1);
                    if r > res_tol {
                        rep.violate(
                            &format!("C02/order_condition/{}/{}_order{}", mname_, cls, ord),
                            format!("tree {} of order {}: sum b_i Phi_i = {:e}, 1/gamma = {:e} (residual {:e})", forest.describe(tid), ord, lhs, 1.0 / forest.trees[tid].gamma, r),
                            &case_id,
                            vdesc.clone(),
                        );
                        break;
                    }
                }
            }
            rep.worst(&format!("order_condition_residual_{}", mname_), worst);
            // non-vacuity: order p+1 must fail somewhere
            let mut maxnext: f64 = 0.0;
            for &tid in &forest.by_order[p + 1] {
                let lhs: f64 = (0..t.s).map(|i| t.b[i] * phi[tid][i]).sum();
                maxnext = maxnext.max((lhs - 1.0 / forest.trees[tid].gamma).abs());
            }
            if maxnext < 1e-6 {
                rep.violate(&format!("C02/oracle_vacuous/{}/{}", mname_, cls), format!("all conditions of order {} hold as well (max residual {:e}): the extracted tableau is degenerate", p + 1, maxnext), &case_id, vdesc.clone());
            }
            // consistency with the first variant
            if let Some(f0) = &first {
                let mut d: f64 = 0.0;
                for i in 0..t.s {
                    d = d.max((t.c[i] - f0.c[i]).abs()).max((t.b[i] - f0.b[i]).abs());
                    for j in 0..t.s {
                        d = d.max((t.a[i][j] - f0.a[i][j]).abs());
                    }
                }
                rep.worst(&format!("tableau_variant_deviation_{}", mname_), d);
                if d > 1e-13 {
                    rep.violate(&format!("C02/tableau_depends_on_context/{}/{}", mname_, cls), format!("the coefficients applied in this variant differ from those of the first step at x0 = 0, h = 1 by {:e}", d), &case_id, vdesc.clone());
                }
            } else {
                first = Some(t.clone());
                rep.sample(json!({"method": mname_, "stages_incl_fsal_and_dense": t.s, "c": t.c, "b": t.b, "worst_order_condition_residual": worst, "max_residual_at_order_p_plus_1": maxnext}));
            }
        }
        base_tab.push(first);
    }

    // ------------------------------------------------------------------ (2) estimator
    for (mi, &m) in [Method::RK23, Method::DOPRI5, Method::DOP853].iter().enumerate() {
        let mname_ = mname(m);
        let qhat = [2usize, 4, 5][mi];
        // tableau without dense stages is what the estimator run uses; the extended one has the same leading part
        let Some(Some(t)) = base_tab.get(mi + 1) else { continue };
        let phi = forest.weights(&t.a);
        let per = match m {
            Method::RK23 => 3,
            Method::DOPRI5 => 6,
            _ => 12,
        };
        let mut rejected_next = 0;
        for ord in 1..=(qhat + 1) {
            for &tid in &forest.by_order[ord] {
                let case_id = format!("estimator/{}/tree{}", mname_, tid);
                if !ctx.want(&case_id) {
                    continue;
                }
                let vals: Vec<f64> = (0..=per).map(|j| phi[tid][j]).collect();
                rep.eval();
                rep.count("estimator_tree_probes", 1);
                rep.nontrivial(hash_str(&case_id));
                let case = json!({"method": mname_, "tree": forest.describe(tid), "order": ord, "answers": vals});
                match std::panic::catch_unwind(|| scripted_scalar_step(m, &vals, 1e-10)) {
                    Ok(Ok(acc)) => {
                        if ord <= qhat && !acc {
                            rep.violate(&format!("C02/estimator_vanishes_up_to_order/{}/order{}", mname_, ord), format!("the embedded estimate does not vanish on tree {} of order {} <= {}: the step was rejected", forest.describe(tid), ord, qhat), &case_id, case);
                        }
                        if ord == qhat + 1 && !acc {
                            rejected_next += 1;
                        }
                    }
                    Ok(Err(e)) => rep.violate(&format!("C02/estimator_probe_failed/{}/order{}", mname_, ord), e, &case_id, case),
                    Err(pn) => rep.violate(&format!("C02/no_panic/{}/estimator", mname_), crate::probe::panic_message(&pn), &case_id, case),
                }
            }
        }
        if ctx.only.is_none() && rejected_next == 0 {
            rep.violate(&format!("C02/estimator_order_too_high/{}/order{}", mname_, qhat + 1), format!("the embedded estimate vanishes on every tree of order {}: the error estimator cannot see the leading error term", qhat + 1), &format!("estimator/{}/next", mname_), json!({"method": mname_}));
        }
        rep.count(&format!("estimator_rejections_at_order_qhat_plus_1_{}", mname_), rejected_next);
        // polynomial quadratures y' = k t^(k-1): accepted for k <= qhat, rejected at k = qhat+1
        for k in 1..=(qhat + 1) {
            let case_id = format!("estimator/{}/poly{}", mname_, k);
            if !ctx.want(&case_id) {
                continue;
            }
            let p = FnProblem { n: 1, name: format!("y' = {} t^{}", k, k - 1), fun: move |t: f64, _y: &[f64], d: &mut [f64]| d[0] = k as f64 * t.powi(k as i32 - 1) };
            let probe = Probe::new(&p, 0.0);
            let lo = LowOpts { first_step: Some(1.0), dense: false, ..Default::default() };
            let mut so = RecSolOut::new(Some(&probe));
            let out = run_low_guarded(m, &probe, 0.0, &[0.0], 1.0, &Tol::S(0.0), &Tol::S(1e-10), &lo, &mut so);
            rep.eval();
            rep.count("polynomial_quadrature_probes", 1);
            if let LowOutcome::Ok(_) = out {
                let acc = so.cbs.len() >= 2 && so.cbs[1].x == 1.0;
                let case = json!({"method": mname_, "rhs": format!("y' = {} t^{}", k, k - 1)});
                if k <= qhat && !acc {
                    rep.violate(&format!("C02/estimator_polynomial/{}/degree{}", mname_, k), format!("y' = {} t^{} is integrated exactly by both formulas but the step of size 1 was rejected", k, k - 1), &case_id, case);
                } else if k == qhat + 1 && acc {
                    rep.violate(&format!("C02/estimator_polynomial/{}/degree{}", mname_, k), format!("the estimator does not see the error on y' = {} t^{} (degree {}+1)", k, k - 1, qhat), &case_id, case);
                }
            }
        }
        // estimator size T(h): bisection on atol
        let case_id = format!("estimator/{}/size", mname_);
        if ctx.want(&case_id) {
            let prob = Composite::new(vec![Base::Tan { u0: 0.3 }], Warp::Id, None, 0.0);
            let hs: Vec<f64> = match m {
                Method::DOP853 => vec![0.4, 0.2, 0.1, 0.05],
                _ => vec![0.2, 0.1, 0.05, 0.025, 0.0125],
            };
            let mut lh = Vec::new();
            let mut lt = Vec::new();
            for &h in &hs {
                let (mut lo_, mut hi_) = (1e-20f64, 1e3f64);
                for _ in 0..70 {
                    let mid = (lo_.ln() * 0.5 + hi_.ln() * 0.5).exp();
                    match first_step_accepted(m, &prob, 0.0, h, mid) {
                        Some(true) => hi_ = mid,
                        Some(false) => lo_ = mid,
                        None => break,
                    }
                }
                rep.evals(70);
                if hi_ < 1e2 && hi_ > 1e-19 {
                    lh.push(h.ln());
                    lt.push(hi_.ln());
                }
            }
            if lh.len() >= 3 {
                // median slope over consecutive octaves (one octave may be irregular where the estimate changes sign)
                let mut sl: Vec<f64> = (1..lh.len()).map(|k| (lt[k] - lt[k - 1]) / (lh[k] - lh[k - 1])).collect();
                sl.sort_by(|a, b| a.partial_cmp(b).unwrap());
                let med = sl[sl.len() / 2];
                let (want, tol) = match m {
                    Method::RK23 => (3.0, 0.4),
                    Method::DOPRI5 => (5.0, 0.4),
                    _ => (8.0, 0.6),
                };
                rep.worst(&format!("estimator_size_slope_deviation_{}", mname_), (med - want).abs());
                rep.count("estimator_size_slopes", 1);
                rep.nontrivial(hash_str(&case_id));
                if (med - want).abs() > tol {
                    rep.violate(&format!("C02/estimator_size_slope/{}/tan", mname_), format!("the measured size of the error estimate scales like h^{:.2}, expected h^{} (slopes {:?})", med, want, sl), &case_id, json!({"method": mname_, "h": hs, "log_T": lt}));
                }
            } else {
                rep.inconclusive("estimator_size_bisection_failed");
            }
        }
    }

    // ------------------------------------------------------------------ (3a) local order
    let nprob = ctx.size(16, 600);
    for &m in [Method::RK4, Method::RK23, Method::DOPRI5, Method::DOP853, Method::RADAU].iter() {
        let mname_ = mname(m);
        let p = order_of(m);
        let mut slopes_of_method: Vec<f64> = Vec::new();
        for pi in 0..nprob {
            for &sgn in &[1.0, -1.0] {
                let case_id = format!("local/{}/{}/{}", mname_, pi, sgn);
                if !ctx.want(&case_id) {
                    continue;
                }
                let mut rng = Rng::derive(ctx.seed, 2, (pi * 2 + if sgn > 0.0 { 0 } else { 1 }) as u64);
                // nonlinear, non-autonomous closed-form problem of dimension 1..2
                let bases = match pi % 4 {
                    0 => vec![Base::Tan { u0: rng.range(0.2, 0.6) }],
                    1 => vec![Base::Logistic { r: rng.range(1.5, 2.5), k: 2.0, u0: rng.range(0.3, 0.8) }, Base::Tanh { a: 1.5, u0: rng.range(-0.6, 0.6) }],
                    2 => vec![Base::Bern { a: 1.5, b: 0.8, u0: rng.range(0.3, 0.8) }],
                    _ => vec![Base::Tanh { a: 1.6, u0: rng.range(-0.5, 0.5) }, Base::Tan { u0: rng.range(-0.3, 0.3) }],
                };
                let warp = if pi % 2 == 0 { Warp::Sin { a: 0.3, b: 1.3 } } else { Warp::Id };
                let nn: usize = bases.iter().map(|b| b.dim()).sum();
                let mix = if nn >= 2 { Some(Mix::random(nn, &mut rng)) } else { None };
                let x0 = rng.range(-0.3, 0.3);
                let prob = Composite::new(bases, warp, mix, x0);
                // constant-step integration over a fixed span (all steps forced to be accepted with
                // size h: first_step = max_step = h, huge tolerance): global error O(h^p) <=> local O(h^(p+1))
                let span = 1.0;
                let ks: Vec<f64> = match m {
                    Method::DOP853 => vec![2.0, 4.0, 8.0, 16.0],
                    Method::DOPRI5 | Method::RADAU => vec![4.0, 8.0, 16.0, 32.0, 64.0],
                    _ => vec![8.0, 16.0, 32.0, 64.0, 128.0],
                };
                let mut lh = Vec::new();
                let mut le = Vec::new();
                if !prob.regular(x0 + sgn * span) || prob.amplification(x0 + sgn * span) > 20.0 {
                    rep.inconclusive("order_problem_not_regular_on_span");
                    continue;
                }
                for &k in &ks {
                    let h = sgn * span / k;
                    let probe = {
                        let mut pr = Probe::new(&prob, x0);
                        pr.user_jac = true;
                        pr
                    };
                    let (rt, at, lo) = if m == Method::RADAU {
                        (Tol::S(1e-6), Tol::S(1e3), LowOpts { first_step: Some(h), max_step: Some(h.abs()), dense: false, newton_tol: Some(1e-18), newton_maxiter: Some(50), ..Default::default() })
                    } else {
                        (Tol::S(0.0), Tol::S(1e300), LowOpts { first_step: Some(h), max_step: Some(h.abs()), dense: false, ..Default::default() })
                    };
                    let mut so = RecSolOut::new(Some(&probe));
                    let y0 = prob.exact(x0).unwrap();
                    let xe = x0 + sgn * span;
                    let out = run_low_guarded(m, &probe, x0, &y0, xe, &rt, &at, &lo, &mut so);
                    rep.eval();
                    if let LowOutcome::Ok(ir) = out {
                        if ir.status == Status::Success && so.cbs.len() as f64 >= k && so.cbs.len() as f64 <= k + 2.0 {
                            let ex = prob.exact(xe).unwrap();
                            let e = so.cbs.last().unwrap().y.iter().zip(&ex).fold(0.0f64, |mx, (a, b)| mx.max((a - b).abs()));
                            if e > 1e-12 * ex.iter().fold(1.0f64, |mx, v| mx.max(v.abs())) {
                                lh.push((span / k).ln());
                                le.push(e.ln());
                            }
                        }
                    }
                }
                if lh.len() >= 3 {
                    // fit on the finest step sizes above the rounding floor (coarse ones are pre-asymptotic)
                    let keep = if m == Method::DOP853 { 2 } else { 3 };
                    let k0 = lh.len() - keep;
                    let s = slope(&lh[k0..], &le[k0..]);
                    rep.count("local_order_slopes_fitted", 1);
                    rep.nontrivial(hash_str(&case_id));
                    rep.worst(&format!("global_order_deficit_{}", mname_), p as f64 - s);
                    let margin = match m {
                        Method::DOP853 => 1.2,
                        Method::DOPRI5 | Method::RADAU => 0.6,
                        _ => 0.5,
                    };
                    slopes_of_method.push(s);
                    // per-problem verdict only for Radau (no tableau extraction exists for it); for the
                    // explicit methods single problems are legitimately irregular (sign changes of the
                    // error constant) and the verdict is taken on the median below
                    // No per-problem verdict: with 3-4 step sizes a single problem is legitimately irregular (the
                    // error passes through zero at some h: fitted slopes between 1.9 and 7 were seen for Radau,
                    // successive slopes 3.6, 4.0, 4.6 still rising). The verdicts are the median and the lower
                    // decile over all problems below.
                    let _ = margin;
                    let _ = sgn;
                } else {
                    rep.inconclusive("order_too_few_points_above_rounding");
                }
            }
        }
        if ctx.only.is_none() && slopes_of_method.len() >= 4 {
            slopes_of_method.sort_by(|a, b| a.partial_cmp(b).unwrap());
            let med = slopes_of_method[slopes_of_method.len() / 2];
            let margin = if m == Method::DOP853 { 1.5 } else { 0.6 };
            rep.worst(&format!("median_global_order_deficit_{}", mname_), p as f64 - med);
            rep.count("median_order_verdicts", 1);
            let q10 = slopes_of_method[slopes_of_method.len() / 10];
            rep.worst(&format!("q10_global_order_deficit_{}", mname_), p as f64 - q10);
            if std::env::var("IVPMON_DEBUG").is_ok() {
                let n_ = slopes_of_method.len();
                eprintln!("{} slopes n={} q02={:.2} q10={:.2} q25={:.2} med={:.2} q75={:.2}", mname_, n_, slopes_of_method[n_ / 50], q10, slopes_of_method[n_ / 4], med, slopes_of_method[3 * n_ / 4]);
            }
            // lower quartile: the bulk of the problems shows the advertised order (observed deficits of the
            // quartile: RK4 -0.02, RK23 0.03, DOPRI5 0.27, DOP853 0.5, Radau 0.03)
            let q25 = slopes_of_method[slopes_of_method.len() / 4];
            rep.worst(&format!("q25_global_order_deficit_{}", mname_), p as f64 - q25);
            let margin25 = match m {
                Method::DOP853 => 1.5,
                Method::DOPRI5 => 0.8,
                _ => 0.5,
            };
            if slopes_of_method.len() >= 16 && q25 < p as f64 - margin25 {
                rep.violate(&format!("C02/empirical_order_quartile/{}/all", mname_), format!("lower quartile of the fitted global order over {} problems is {:.2}, advertised order {}", slopes_of_method.len(), q25, p), &format!("local/{}/quartile", mname_), json!({"method": mname_, "slopes": slopes_of_method}));
            }
            if med < p as f64 - margin {
                rep.violate(&format!("C02/empirical_order_median/{}/all", mname_), format!("median fitted global order over {} problems is {:.2}, advertised order {}", slopes_of_method.len(), med, p), &format!("local/{}/median", mname_), json!({"method": mname_, "slopes": slopes_of_method}));
            }
        }
    }

    // ------------------------------------------------------------------ (3b) Radau vs Pade(2,3)
    {
        let pade = |zr: f64, zi: f64| -> (f64, f64) {
            // R(z) = (1 + 2z/5 + z^2/20) / (1 - 3z/5 + 3z^2/20 - z^3/60)
            let mul = |a: (f64, f64), b: (f64, f64)| (a.0 * b.0 - a.1 * b.1, a.0 * b.1 + a.1 * b.0);
            let z = (zr, zi);
            let z2 = mul(z, z);
            let z3 = mul(z2, z);
            let num = (1.0 + 0.4 * z.0 + z2.0 / 20.0, 0.4 * z.1 + z2.1 / 20.0);
            let den = (1.0 - 0.6 * z.0 + 0.15 * z2.0 - z3.0 / 60.0, -0.6 * z.1 + 0.15 * z2.1 - z3.1 / 60.0);
            let d = den.0 * den.0 + den.1 * den.1;
            ((num.0 * den.0 + num.1 * den.1) / d, (num.1 * den.0 - num.0 * den.1) / d)
        };
        let mut zs: Vec<(f64, f64)> = vec![(-0.5, 0.0), (-0.9, 0.6), (-0.9, -0.6), (0.125, 0.25), (0.125, -0.25), (-50.0, 0.0), (0.0, 2.0), (0.0, -2.0), (0.5, 0.0), (-3.0, 4.0), (-1e3, 0.0), (-8.0, 1.0), (1.0, 1.0), (-0.01, 0.0)];
        let mut rng = Rng::derive(ctx.seed, 22, 0);
        for _ in 0..ctx.size(400, 20_000) {
            zs.push((-rng.logu(1e-2, 1e2) * if rng.chance(0.85) { 1.0 } else { -0.02 }, rng.range(-5.0, 5.0)));
        }
        for (zi_, &(zr, zi)) in zs.iter().enumerate() {
            for &h in &[1.0, -0.5, 0.25] {
                let case_id = format!("pade/{}/{}", zi_, h);
                if !ctx.want(&case_id) {
                    continue;
                }
                let (a, b) = (zr / h, zi / h);
                let prob = Composite::new(vec![Base::Rot { a, w: b, u0: [0.8, -0.3] }], Warp::Id, None, 0.0);
                let mut probe = Probe::new(&prob, 0.0);
                probe.user_jac = true;
                let lo = LowOpts { first_step: Some(h), dense: false, newton_tol: Some(1e-18), newton_maxiter: Some(50), ..Default::default() };
                let mut so = RecSolOut::new(Some(&probe));
                let out = run_low_guarded(Method::RADAU, &probe, 0.0, &[0.8, -0.3], h, &Tol::S(1e-6), &Tol::S(1e3), &lo, &mut so);
                rep.eval();
                let case = json!({"z": [zr, zi], "h": h, "lambda": [a, b]});
                match out {
                    LowOutcome::Ok(_) if so.cbs.len() == 2 => {
                        let (rr, ri) = pade(zr, zi);
                        let want = (rr * 0.8 - ri * (-0.3), rr * (-0.3) + ri * 0.8);
                        let got = (so.cbs[1].y[0], so.cbs[1].y[1]);
                        let zabs = zr.hypot(zi).max(1.0);
                        let e = ((got.0 - want.0).abs().max((got.1 - want.1).abs())) / zabs;
                        rep.count("pade_points_checked", 1);
                        rep.nontrivial(hash_str(&case_id));
                        rep.worst("radau_vs_pade_rel_error", e);
                        if e > 1e-12 {
                            rep.violate("C02/radau_stability_function/RADAU/linear", format!("one Radau step gives ({:e},{:e}) but R(z) y0 = ({:e},{:e}) for z = {}+{}i (error {:e})", got.0, got.1, want.0, want.1, zr, zi, e), &case_id, case);
                        }
                    }
                    LowOutcome::Ok(_) => rep.inconclusive("radau_single_step_needed_several_steps"),
                    LowOutcome::Panic(msg) => rep.violate("C02/no_panic/RADAU/pade", msg, &case_id, case),
                    _ => rep.inconclusive("radau_single_step_failed"),
                }
            }
        }
    }

    // ------------------------------------------------------------------ (3c) naccpt(tol)
    for (m, q, tl, th, span) in [(Method::RK23, 3.0, 1e-7, 1e-3, 60.0), (Method::DOPRI5, 5.0, 1e-10, 1e-4, 200.0), (Method::DOP853, 8.0, 1e-11, 1e-4, 600.0)] {
        let case_id = format!("stepcount/{}", mname(m));
        if !ctx.want(&case_id) {
            continue;
        }
        let prob = Composite::new(vec![Base::Rot { a: 0.0, w: 1.0, u0: [1.0, 0.3] }, Base::Rot { a: -0.002, w: 0.37, u0: [0.5, 0.5] }], Warp::Id, None, 0.0);
        let mut lt = Vec::new();
        let mut ln_ = Vec::new();
        for k in 0..13 {
            let tol = th * (tl / th as f64).powf(k as f64 / 12.0);
            let mut scn = Scn::new(m, 0.0, span, prob.y0());
            scn.rtol = Tol::S(tol);
            scn.atol = Tol::S(tol);
            scn.budget = 5_000_000;
            let r = run_solve(&prob, &scn, false, false);
            rep.eval();
            if let Outcome::Ok(s) = &r.out {
                if s.status == Status::Success && s.naccpt >= 30 {
                    lt.push(tol.ln());
                    ln_.push((s.naccpt as f64).ln());
                }
            }
        }
        if lt.len() >= 8 {
            let e = slope(&lt, &ln_);
            rep.count("step_count_exponents_fitted", 1);
            rep.nontrivial(hash_str(&case_id));
            rep.worst(&format!("step_count_exponent_times_q_{}", mname(m)), -e * q);
            if e < -1.35 / q || e > -0.55 / q {
                rep.violate(&format!("C02/step_count_scaling/{}/rotation", mname(m)), format!("naccpt grows like tol^{:.3}; expected about tol^(-1/{}) = tol^{:.3}", e, q, -1.0 / q), &case_id, json!({"method": mname(m), "log_tol": lt, "log_naccpt": ln_}));
            }
        } else {
            rep.inconclusive("step_count_too_few_points");
        }
    }
    (rep, meta)
}
