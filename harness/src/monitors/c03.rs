//! C03 — interval discipline and honest status. Direct predicates on Solution and on the
//! probe's call log, over a randomised + adversarial option sweep.

use super::common::*;
use crate::ctx::{Ctx, Meta};
use crate::probe::*;
use crate::problems::Problem;
use crate::report::Report;
use crate::rng::Rng;
use crate::util::{all_finite, par_for};
use ivp::prelude::*;
use serde_json::json;

/// class discriminator of a scenario for violation signatures
fn class_of(scn: &Scn) -> String {
    let span = (scn.xend - scn.x0).abs();
    let mut c: Vec<&str> = Vec::new();
    if !scn.xend.is_finite() {
        c.push("inf_xend");
    }
    if span <= 1.0e-12 * 1.0000001 {
        c.push("span_le_1e-12");
    }
    if span > 1.0e-12 * 1.0000001 && span < 1.0e-5 {
        c.push("short_span");
    }
    if let Some(h) = scn.first_step {
        if h.abs() >= span {
            c.push("first_step_ge_span");
        } else if h * (scn.xend - scn.x0) < 0.0 {
            c.push("first_step_wrong_sign");
        } else {
            c.push("first_step");
        }
    }
    if let Some(m) = scn.max_step {
        if m > span {
            c.push("max_step_gt_span");
        }
    }
    if scn.t_eval.is_some() {
        c.push("t_eval");
    }
    if scn.events.iter().any(|e| e.terminal.is_some()) {
        c.push("terminal");
    }
    if scn.max_steps.is_some() {
        c.push("budget");
    }
    if scn.x0.abs() >= 1e5 {
        c.push("huge_x0");
    }
    if c.is_empty() {
        "plain".into()
    } else {
        c.join("+")
    }
}

pub fn check_run(rep: &mut Report, p: &dyn Problem, scn: &Scn, res: &RunRes, case_id: &str) {
    let m = mname(scn.method);
    let cls = class_of(scn);
    let case = || scn.describe(p);
    let dir = scn.dir();
    let n = scn.y0.len();
    let sig = |clause: &str| format!("C03/{}/{}/{}", clause, m, cls);
    match &res.out {
        Outcome::Budget => {
            rep.inconclusive("evaluation_budget_exhausted");
            return;
        }
        Outcome::Panic(msg) => {
            rep.violate(&sig("no_panic"), format!("solve_ivp panicked: {}", msg), case_id, case());
            return;
        }
        Outcome::Err(e) => {
            // configuration errors are honest refusals (e.g. RK4 with a wrong-signed step)
            rep.count("config_errors_returned", 1);
            rep.count(&format!("err_{}", e.split('(').nth(2).unwrap_or("other").split(' ').next().unwrap_or("other")), 1);
            return;
        }
        Outcome::Ok(_) => {}
    }
    let sol = res.out.sol().unwrap();
    rep.count(&format!("status_{:?}", sol.status), 1);
    rep.count("samples_checked", sol.t.len() as u64);
    let rt = rt_slack(scn.method, scn.x0, scn.xend, sol.nstep.max(sol.t.len()));

    // shapes
    if sol.t.len() != sol.y.len() {
        rep.violate(&sig("len_t_eq_len_y"), format!("len(t)={} len(y)={}", sol.t.len(), sol.y.len()), case_id, case());
        return;
    }
    if let Some(bad) = sol.y.iter().position(|v| v.len() != n) {
        rep.violate(&sig("sample_dimension"), format!("sample {} has dimension {} instead of {}", bad, sol.y[bad].len(), n), case_id, case());
    }
    // start
    if scn.t_eval.is_none() {
        if sol.t.is_empty() || sol.t[0].to_bits() != scn.x0.to_bits() {
            rep.violate(&sig("starts_at_x0"), format!("t[0] = {:?}, x0 = {}", sol.t.first(), scn.x0), case_id, case());
        }
    }
    // monotone
    let terminal_hit = terminal_reached(scn, sol);
    for i in 1..sol.t.len() {
        let d = (sol.t[i] - sol.t[i - 1]) * dir;
        let last_is_event = terminal_hit && i == sol.t.len() - 1;
        if !(d > 0.0) && !(last_is_event && d == 0.0) {
            rep.violate(
                &sig("strictly_monotone"),
                format!("t[{}]={:e} then t[{}]={:e} (direction {})", i - 1, sol.t[i - 1], i, sol.t[i], dir),
                case_id,
                case(),
            );
            break;
        }
    }
    // never past xend, never before x0
    for (i, &t) in sol.t.iter().enumerate() {
        if (t - scn.xend) * dir > rt {
            rep.violate(&sig("never_past_xend"), format!("t[{}]={:e} beyond xend={:e} by {:e}", i, t, scn.xend, (t - scn.xend).abs()), case_id, case());
            break;
        }
        if (t - scn.x0) * dir < -rt {
            rep.violate(&sig("never_before_x0"), format!("t[{}]={:e} on the wrong side of x0={:e}", i, t, scn.x0), case_id, case());
            break;
        }
    }
    // evaluations inside the closed interval
    if res.log.n_ode + res.log.n_events + res.log.n_jac > 0 {
        let (lo, hi) = if dir > 0.0 { (scn.x0, scn.xend) } else { (scn.xend, scn.x0) };
        if res.log.tmin < lo - rt || res.log.tmax > hi + rt {
            rep.violate(
                &sig("eval_inside_interval"),
                format!("f/events/jac evaluated at t in [{:e}, {:e}] but the interval is [{:e}, {:e}] (slack {:e})", res.log.tmin, res.log.tmax, lo, hi, rt),
                case_id,
                case(),
            );
        }
        rep.count("runs_with_call_log_checked", 1);
    }
    // status
    match sol.status {
        Status::Success => {
            if terminal_hit {
                rep.violate(&sig("status_honest"), "a terminal event reached its count but status is Success".into(), case_id, case());
            }
            if scn.t_eval.is_none() {
                match sol.t.last() {
                    Some(&tl) if (tl - scn.xend).abs() <= rt => {}
                    other => rep.violate(&sig("last_sample_is_xend"), format!("status Success but last sample is {:?}, xend = {:e}", other, scn.xend), case_id, case()),
                }
            } else {
                // the integration itself must have reached xend
                let covered = res.log.far >= (scn.xend - scn.x0).abs() - rt;
                if !covered {
                    rep.violate(&sig("success_covers_interval"), format!("status Success but f was never evaluated beyond |t-x0| = {:e} of {:e}", res.log.far, (scn.xend - scn.x0).abs()), case_id, case());
                }
            }
            if scn.method != Method::RK4 && !sol.y.iter().all(|v| all_finite(v)) {
                rep.violate(&sig("success_nonfinite"), "status Success with non-finite state values".into(), case_id, case());
            }
        }
        Status::UserInterrupt => {
            if !terminal_hit {
                rep.violate(&sig("status_honest"), "status UserInterrupt but no terminal event reached its count".into(), case_id, case());
            }
        }
        other => {
            if terminal_hit {
                rep.violate(&sig("status_honest"), format!("terminal event reached its count but status is {:?}", other), case_id, case());
            }
            if scn.t_eval.is_none() && scn.xend.is_finite() {
                if let Some(&tl) = sol.t.last() {
                    if (tl - scn.xend).abs() <= rt && sol.t.len() > 1 {
                        rep.violate(&sig("status_honest"), format!("status {:?} although the last sample is xend to rounding", other), case_id, case());
                    }
                }
            }
        }
    }
}

pub fn run(ctx: &Ctx) -> (Report, Meta) {
    let meta = Meta::new(
        "randomised option sweep on bounded problems (oscillators, Lotka-Volterra, pendulum, linear rotation, zero RHS, quadrature): 6 methods x both directions x x0 in {0, O(1), 1e-3, +-1e6} x spans 1e-12..1e8 and infinite xend with a terminal event x first_step {none, tiny, span/3, span, 5 span, wrong sign} x max_step {none, inf, span/4, span/7, 3 span} x max_steps x t_eval x dense_output x events (terminal or not); plus a deterministic adversarial list (steps dividing the interval exactly, first_step == span, spans of 1e-12..1e-9, spans of 1e-12..1e-3 from degenerate starts: zero state, zero derivative, equilibrium). Every run is a distinct configuration (distinct by hash of the scenario).",
    )
    .assume("rounding slack R_t = 4 eps max(|x0|,|xend|) (adaptive) / (nstep+4) eps max(..) (RK4)")
    .assume("configuration errors (Err) are honest refusals, not violations")
    .floor("runs_with_call_log_checked", 500)
    .floor("status_Success", 300)
    .floor("status_UserInterrupt", 20);
    let g = GenOpts {
        stiff_for_implicit: true,
        allow_min_step: true,
        allow_tiny_span: true,
        allow_huge: true,
        allow_inf: true,
        allow_first_step: true,
        allow_weird_first_step: true,
        allow_max_step: true,
        allow_max_steps: true,
        allow_t_eval: true,
        allow_events: true,
        allow_terminal: true,
        ..Default::default()
    };
    let nrand = ctx.size(160_000, 4_000_000);
    let mut rep = par_for(nrand, "C03", |i, rep| {
        let case_id = format!("sweep/{}", i);
        if !ctx.want(&case_id) {
            return;
        }
        let mut rng = Rng::derive(ctx.seed, 3, i as u64);
        let (prob, scn) = gen_case(&mut rng, &g);
        let res = run_solve(&prob, &scn, false, false);
        rep.eval();
        rep.nontrivial(scn_hash(&scn, &prob));
        check_run(rep, &prob, &scn, &res, &case_id);
        if i % 1499 == 0 {
            rep.sample(json!({"scenario": scn.describe(&prob), "outcome": res.out.tag(), "n_samples": res.out.sol().map(|s| s.t.len())}));
        }
    });

    // deterministic adversarial list
    let mut adv: Vec<(crate::problems::Simple, Scn)> = Vec::new();
    for &m in METHODS.iter() {
        for &dir in &[1.0, -1.0] {
            for &x0 in &[0.0, 1.0, -2.5] {
                let p = crate::problems::Simple::Osc { d: 0.0, a: 0.5, w: 1.3 };
                let y0 = vec![1.0, 0.2];
                // exact division of the interval by max_step / first_step
                for &(span, k) in &[(1.0, 4.0), (2.0, 8.0), (0.75, 3.0), (1.0, 10.0), (0.7, 7.0)] {
                    let mut s = Scn::new(m, x0, x0 + dir * span, y0.clone());
                    if m == Method::RK4 {
                        s.first_step = Some(dir * span / k);
                    } else {
                        s.max_step = Some(span / k);
                        s.first_step = Some(dir * span / k);
                    }
                    adv.push((p.clone(), s));
                }
                // first_step == span, > span, non-dividing
                for &f in &[1.0, 1.5, 0.3, 0.45, 0.999999] {
                    let mut s = Scn::new(m, x0, x0 + dir * 1.0, y0.clone());
                    s.first_step = Some(dir * f);
                    adv.push((p.clone(), s));
                }
                // tiny spans
                for &span in &[1e-12, 3e-12, 1e-11, 1e-10, 1e-9, 1e-7, 1e-6] {
                    let s = Scn::new(m, x0, x0 + dir * span, y0.clone());
                    adv.push((p.clone(), s.clone()));
                    let mut s2 = s.clone();
                    s2.max_step = Some(f64::INFINITY);
                    if m != Method::RK4 {
                        adv.push((p.clone(), s2));
                    }
                }
                // short spans from a degenerate start (zero state, zero derivative, equilibrium): the automatic
                // initial-step heuristics fall back to fixed trial sizes there, which must still respect the interval
                for &span in &[1e-12, 1e-10, 1e-9, 1e-8, 1e-7, 3e-7, 9e-7, 1e-6, 1e-5, 1e-4, 1e-3] {
                    let degenerate: Vec<(crate::problems::Simple, Vec<f64>)> = vec![
                        (crate::problems::Simple::Osc { d: 0.0, a: 0.5, w: 1.3 }, vec![0.0, 0.0]),
                        (crate::problems::Simple::Osc { d: 0.1, a: 0.0, w: 1.0 }, vec![0.0, 0.0]),
                        (crate::problems::Simple::Quad, vec![0.0, 0.0]),
                        (crate::problems::Simple::Zero { n: 2 }, vec![1.0, -2.0]),
                        (crate::problems::Simple::Zero { n: 1 }, vec![0.0]),
                        (crate::problems::Simple::Pend { g: 4.0, d: 0.0 }, vec![0.0, 0.0]),
                        (crate::problems::Simple::Forced { k: 1.0 }, vec![0.0]),
                        (crate::problems::Simple::Osc { d: 0.0, a: 0.5, w: 1.3 }, vec![1e-14, -1e-13]),
                    ];
                    for (pp, yy) in degenerate {
                        let s = Scn::new(m, x0, x0 + dir * span, yy);
                        adv.push((pp.clone(), s.clone()));
                        if m != Method::RK4 {
                            let mut s2 = s.clone();
                            s2.max_step = Some(f64::INFINITY);
                            adv.push((pp.clone(), s2));
                            let mut s3 = s.clone();
                            s3.max_step = Some(3.0 * span);
                            adv.push((pp, s3));
                        }
                    }
                }
            }
        }
    }
    let adv_ref = &adv;
    let rep2 = par_for(adv.len(), "C03", |i, rep| {
        let case_id = format!("adv/{}", i);
        if !ctx.want(&case_id) {
            return;
        }
        let (prob, scn) = &adv_ref[i];
        let res = run_solve(prob, scn, false, false);
        rep.eval();
        rep.count("adversarial_cases", 1);
        rep.nontrivial(scn_hash(scn, prob));
        check_run(rep, prob, scn, &res, &case_id);
    });
    rep.merge(rep2);
    (rep, meta)
}
