//! C04 — solve_ivp always terminates and never panics on valid input.
//! Every hostile call runs in its own child process (`ivpmon child ...`) under a logical budget of
//! right-hand-side evaluations with stall detection, a CPU-time limit and a wall-clock watchdog.

use crate::ctx::{Ctx, Meta};
use crate::probe::*;
use crate::problems::*;
use crate::report::Report;
use crate::rng::Rng;
use crate::util::par_for;
use ivp::prelude::*;
use serde_json::{json, Value};
use std::io::Read;
use std::process::{Command, Stdio};
use std::time::{Duration, Instant};

const BUDGET: u64 = 20_000_000;
const STALL_WINDOW: u64 = 1_000_000;

const KINDS: [&str; 19] = [
    "blowup_y2", "blowup_1_plus_y2", "sqrt_domain_exit", "nan_after_time", "inf_in_region", "bounded_discontinuity", "stiff_decay_explicit", "zero_rhs", "nan_at_start", "blowup_exp", "blowup_pole_opposite_side", "sqrt_boundary_at_xend", "step_below_ulp_of_x0",
    "nan_in_one_component_after_time", "sliding_mode", "huge_finite_rhs", "blowup_one_of_three", "neg_inf_after_time", "state_dependent_jump",
];

struct Hostile {
    kind: usize,
    scn: Scn,
    prob: Box<dyn Problem>,
    /// for blow-up kinds: time of the singularity (a Success beyond it is wrong for error-controlled methods)
    singular_at: Option<f64>,
}

fn fnp<F: Fn(f64, &[f64], &mut [f64]) + Send + Sync + 'static>(n: usize, name: &str, f: F) -> Box<dyn Problem> {
    Box::new(FnProblem { n, name: name.to_string(), fun: f })
}

fn gen(seed: u64, idx: usize) -> Hostile {
    let mut rng = Rng::derive(seed, 4, idx as u64);
    let kind = idx % KINDS.len();
    let method = METHODS[(idx / KINDS.len()) % 6];
    // BDF with its finite-difference Jacobian of a sign function (entries ~1/delta) creeps through chattering problems with
    // steps of 1e-8 whatever the tolerance: always the whole evaluation budget, always inconclusive. It gets the bounded
    // discontinuity of kind 5 instead.
    let kind = if (kind == 14 || kind == 18) && method == Method::BDF { 5 } else { kind };
    let mut x0 = 0.0;
    let mut xend;
    let mut y0 = vec![1.0];
    let mut singular_at = None;
    let prob: Box<dyn Problem> = match kind {
        0 => {
            let s = rng.range(0.5, 2.0);
            y0 = vec![1.0 / s];
            xend = s * rng.range(1.2, 5.0);
            singular_at = Some(s);
            fnp(1, "y' = y^2", |_t, y, d| d[0] = y[0] * y[0])
        }
        1 => {
            let u0: f64 = rng.range(-0.5, 0.8);
            y0 = vec![u0];
            let s = std::f64::consts::FRAC_PI_2 - u0.atan();
            xend = s * rng.range(1.1, 4.0);
            singular_at = Some(s);
            fnp(1, "y' = 1 + y^2", |_t, y, d| d[0] = 1.0 + y[0] * y[0])
        }
        2 => {
            xend = rng.range(2.5, 6.0);
            fnp(1, "y' = -sqrt(y)", |_t, y, d| d[0] = -(y[0].sqrt()))
        }
        3 => {
            let c = rng.range(0.2, 0.9);
            xend = rng.range(1.0, 3.0);
            y0 = vec![1.0, 0.5];
            fnp(2, &format!("y' = -y, NaN for t > {}", c), move |t, y, d| {
                if t > c {
                    d[0] = f64::NAN;
                    d[1] = f64::NAN;
                } else {
                    d[0] = -y[0];
                    d[1] = y[0] - y[1];
                }
            })
        }
        4 => {
            xend = rng.range(2.0, 5.0);
            y0 = vec![0.0];
            let c = rng.range(0.5, 1.5);
            fnp(1, &format!("y' = 1, +inf for y > {}", c), move |_t, y, d| d[0] = if y[0] > c { f64::INFINITY } else { 1.0 })
        }
        5 => {
            xend = rng.range(2.0, 10.0);
            let w = rng.range(5.0, 60.0);
            fnp(1, "y' = -y + sign(sin(w t))", move |t, y, d| d[0] = -y[0] + if (w * t).sin() >= 0.0 { 1.0 } else { -1.0 })
        }
        6 => {
            let lam = *rng.pick(&[1e4, 1e5, 1e6]);
            xend = rng.range(0.5, 2.0);
            fnp(1, &format!("y' = -{}(y - cos t)", lam), move |t, y, d| d[0] = -lam * (y[0] - t.cos()))
        }
        7 => {
            xend = rng.logu(1.0, 1e6);
            y0 = vec![rng.range(-1.0, 1.0), 2.0];
            fnp(2, "y' = 0", |_t, _y, d| {
                d[0] = 0.0;
                d[1] = 0.0;
            })
        }
        8 => {
            xend = rng.range(1.0, 3.0);
            fnp(1, "y' = y sin(t)/t (NaN at t = 0)", |t, y, d| d[0] = y[0] * t.sin() / t)
        }
        9 => {
            xend = rng.range(2.0, 5.0);
            y0 = vec![0.0];
            singular_at = Some(1.0);
            fnp(1, "y' = exp(y)", |_t, y, d| d[0] = y[0].exp())
        }
        10 => {
            // pole on the side of the origin opposite to the direction of integration
            y0 = vec![1.0];
            if rng.bool() {
                x0 = -2.0;
                xend = rng.range(-0.5, 1.0);
                singular_at = Some(-1.0);
                fnp(1, "y' = y^2 from x0 = -2 (pole at -1)", |_t, y, d| d[0] = y[0] * y[0])
            } else {
                x0 = 2.0;
                xend = rng.range(-1.0, 0.5);
                singular_at = Some(1.0);
                fnp(1, "y' = -y^2 backward from x0 = 2 (pole at +1)", |_t, y, d| d[0] = -y[0] * y[0])
            }
        }
        11 => {
            // solution reaches the domain boundary exactly at xend
            xend = 2.0;
            fnp(1, "y' = -sqrt(y), boundary reached at xend", |_t, y, d| d[0] = -(y[0].sqrt()))
        }
        13 => {
            // only one component of three goes NaN: a norm that loses NaN (max with NaN, comparisons false) lets it through
            let c = rng.range(0.2, 0.9);
            let which = rng.below(3);
            xend = rng.range(1.0, 3.0);
            y0 = vec![1.0, 0.5, -0.3];
            fnp(3, &format!("linear 3-d system, component {} NaN for t > {}", which, c), move |t, y, d| {
                d[0] = -y[0] + 0.2 * y[2];
                d[1] = y[0] - y[1];
                d[2] = -0.5 * y[2] + 0.1 * y[1];
                if t > c {
                    d[which] = f64::NAN;
                }
            })
        }
        14 => {
            // sliding mode: the solution reaches y = 0 and the right-hand side chatters between -k and +k
            let k = rng.range(0.5, 3.0);
            xend = rng.range(1.5, 4.0);
            y0 = vec![rng.range(0.2, 1.0)];
            fnp(1, &format!("y' = -{} sign(y) + 0.3 sin t", k), move |t, y, d| d[0] = -k * if y[0] > 0.0 { 1.0 } else if y[0] < 0.0 { -1.0 } else { 0.0 } + 0.3 * t.sin())
        }
        15 => {
            // finite but close to overflow: stage combinations and error norms overflow to inf / NaN internally
            let a = *rng.pick(&[1e300, 1e305, 1.0e307]);
            xend = rng.range(1.0, 6.0);
            y0 = vec![0.0];
            fnp(1, &format!("y' = {:e} cos t", a), move |t, _y, d| d[0] = a * t.cos())
        }
        16 => {
            // one of three coupled components blows up
            let s = rng.range(0.5, 2.0);
            y0 = vec![1.0 / s, 1.0, 0.0];
            xend = s * rng.range(1.2, 4.0);
            singular_at = Some(s);
            fnp(3, "y1' = y1^2, y2' = -y2, y3' = y1 - y3", |_t, y, d| {
                d[0] = y[0] * y[0];
                d[1] = -y[1];
                d[2] = y[0] - y[2];
            })
        }
        17 => {
            let c = rng.range(0.2, 0.9);
            xend = rng.range(1.0, 3.0);
            y0 = vec![1.0, 0.5];
            fnp(2, &format!("y' = -y, -inf for t > {}", c), move |t, y, d| {
                if t > c {
                    d[0] = f64::NEG_INFINITY;
                    d[1] = -y[1];
                } else {
                    d[0] = -y[0];
                    d[1] = y[0] - y[1];
                }
            })
        }
        18 => {
            // the right-hand side jumps by a large amount when the state crosses a threshold
            let thr = rng.range(0.3, 0.8);
            let jump = *rng.pick(&[3.0, 10.0, 100.0]);
            xend = rng.range(2.0, 6.0);
            y0 = vec![1.0];
            fnp(1, &format!("y' = -y + {} [y < {}]", jump, thr), move |_t, y, d| d[0] = -y[0] + if y[0] < thr { jump } else { 0.0 })
        }
        _ => {
            // interval of a few ulps of x0: steps cannot be resolved
            x0 = rng.sign() * *rng.pick(&[1e6, 1e9, 1e12]);
            // half of the intervals are so short that a hundredth of them (RK4's default step) is below half an ulp of x0
            xend = x0 + rng.sign() * x0.abs() * f64::EPSILON * if rng.bool() { rng.range(3.0, 40.0) } else { rng.range(40.0, 400.0) };
            fnp(1, "y' = -y on an interval of a few ulps", |_t, y, d| d[0] = -y[0])
        }
    };
    // direction: one case in three integrates the time-reflected problem backward
    let backward = (idx / (6 * KINDS.len())) % 3 == 2 && kind != 10 && kind != 12;
    let prob: Box<dyn Problem> = if backward {
        x0 = -x0;
        xend = -xend;
        singular_at = singular_at.map(|s| -s);
        struct Refl(Box<dyn Problem>);
        impl Problem for Refl {
            fn dim(&self) -> usize {
                self.0.dim()
            }
            fn f(&self, t: f64, y: &[f64], d: &mut [f64]) {
                self.0.f(-t, y, d);
                for v in d.iter_mut() {
                    *v = -*v;
                }
            }
            fn describe(&self) -> Value {
                json!({"reflected": self.0.describe()})
            }
        }
        Box::new(Refl(prob))
    } else {
        prob
    };
    let mut scn = Scn::new(method, x0, xend, y0);
    // loose (default-like) tolerances half of the time: stiffness detection does not mask a missing guard there
    let rt = if rng.bool() { rng.logu(1e-4, 1e-3) } else { rng.logu(1e-8, 1e-3) };
    // chattering problems cost span / (tol / k) steps: with tolerances below 1e-4 they crawl through the whole evaluation
    // budget (inconclusive, and 15 s of CPU each)
    let rt = if kind == 14 || kind == 18 { rt.max(1e-4) } else { rt };
    scn.rtol = Tol::S(rt);
    scn.atol = Tol::S(rt * if kind == 14 || kind == 18 { rng.logu(1e-1, 1.0) } else { rng.logu(1e-3, 1.0) });
    scn.budget = BUDGET;
    if method == Method::RK4 && kind != 12 {
        scn.first_step = Some((xend - x0) / rng.range(50.0, 2000.0));
    }
    match (idx / 6) % 5 {
        1 => scn.max_steps = Some(*rng.pick(&[10usize, 100, 1000, 10_000])),
        2 => {
            let m = 3 + rng.below(20);
            scn.t_eval = Some((0..=m).map(|i| x0 + (xend - x0) * i as f64 / m as f64).collect());
            if let Some(t) = scn.t_eval.as_mut() {
                *t.last_mut().unwrap() = xend;
                // on intervals of a few ulps the uniform grid rounds to repeated values: keep it strictly monotone
                t.dedup();
            }
        }
        3 => scn.dense = true,
        4 => {
            scn.events = vec![EvSpec { kind: EvKind::Comp { k: 0, c: rng.range(0.3, 3.0) }, dir: 0, terminal: None }];
            scn.dense = rng.bool();
        }
        _ => {}
    }
    // a lower bound on the step size (Radau and BDF honour it): a step that fails at the bound cannot be repeated for ever
    if matches!(method, Method::RADAU | Method::BDF) && (idx / (6 * KINDS.len())) % 2 == 1 && kind != 12 {
        scn.min_step = Some((xend - x0).abs() * *rng.pick(&[1e-9, 1e-6, 1e-3]));
    }
    if kind == 11 {
        // the reported value at t = xend must be finite under Success
        scn.t_eval = Some(vec![x0, 0.5 * (x0 + xend), xend]);
    }
    Hostile { kind, scn, prob, singular_at }
}

/// Child process entry: run one case, print one JSON line, exit 0; exit 77 on a stalled budget
/// exhaustion, 79 on budget exhaustion with continuing progress, 78 on a panic.
pub fn child_main(args: &[String]) {
    let seed: u64 = args[0].parse().expect("seed");
    let idx: usize = args[1].parse().expect("idx");
    let h = gen(seed, idx);
    let mut probe = Probe::new(h.prob.as_ref(), h.scn.x0);
    probe.events = h.scn.events.clone();
    probe.budget = u64::MAX;
    // budget handled here so that the stall information is available
    struct Guard<'a> {
        p: Probe<'a>,
    }
    impl<'a> IVP for Guard<'a> {
        fn ode(&self, x: f64, y: &[f64], d: &mut [f64]) {
            self.p.ode(x, y, d);
            let l = self.p.log.borrow();
            let total = l.n_ode + l.n_ode_jac;
            if total > BUDGET {
                // no progress: the smallest |t - x0| evaluated in the last complete window of 1e6 calls is not beyond that
                // of the window before (a crawl, however slow, raises it; the furthest point ever evaluated does not tell,
                // an early rejected trial step may lie far ahead of where a sliding-mode solution creeps)
                let stalled = !(l.win_min_last > l.win_min_prev); // NaN evaluation times are no progress either
                println!("{}", json!({"outcome": "budget", "calls": total, "far": l.far, "far_at": l.far_at, "window_min_previous": l.win_min_prev, "window_min_last": l.win_min_last, "stalled": stalled}));
                std::process::exit(if stalled { 77 } else { 79 });
            }
        }
        fn n_events(&self) -> usize {
            self.p.n_events()
        }
        fn events(&self, x: f64, y: &[f64], o: &mut [f64]) {
            self.p.events(x, y, o)
        }
        fn event_config(&self, i: usize) -> EventConfig {
            self.p.event_config(i)
        }
        fn jac(&self, x: f64, y: &[f64], j: &mut Matrix) {
            // default finite differences through this guard so that the budget also covers them
            struct In<'b, 'a>(&'b Guard<'a>);
            impl<'b, 'a> IVP for In<'b, 'a> {
                fn ode(&self, x: f64, y: &[f64], d: &mut [f64]) {
                    self.0.ode(x, y, d)
                }
            }
            IVP::jac(&In(self), x, y, j)
        }
    }
    let g = Guard { p: probe };
    let r = std::panic::catch_unwind(std::panic::AssertUnwindSafe(|| solve_ivp(&g, h.scn.x0, h.scn.xend, &h.scn.y0, h.scn.options())));
    let l = g.p.log.borrow();
    match r {
        Err(p) => {
            println!("{}", json!({"outcome": "panic", "message": panic_message(&p)}));
            std::process::exit(78);
        }
        Ok(Err(e)) => println!("{}", json!({"outcome": "err", "error": format!("{:?}", e), "calls": l.n_ode + l.n_ode_jac})),
        Ok(Ok(sol)) => {
            let dirn = (h.scn.xend - h.scn.x0).signum();
            let finite = sol.y.iter().all(|v| v.iter().all(|x| x.is_finite())) && sol.t.iter().all(|t| t.is_finite());
            let ordered = sol.t.windows(2).all(|w| (w[1] - w[0]) * dirn > 0.0 || (sol.status == Status::UserInterrupt && w[1] == w[0]));
            let dense_end_finite = match (&sol.continuous_sol, sol.t.last()) {
                (Some(_), Some(&tl)) => sol.sol(tl).map(|v| v.iter().all(|x| x.is_finite())).unwrap_or(true),
                _ => true,
            };
            println!(
                "{}",
                json!({"outcome": "returned", "status": format!("{:?}", sol.status), "n": sol.t.len(), "len_y": sol.y.len(), "finite": finite, "ordered": ordered,
                       "first_t": sol.t.first(), "last_t": sol.t.last(), "calls": l.n_ode + l.n_ode_jac, "nonfinite_rhs_calls": l.nonfinite_rhs, "nfev": sol.nfev, "nstep": sol.nstep,
                       "dense_end_finite": dense_end_finite, "events": sol.t_events.iter().map(|v| v.len()).collect::<Vec<_>>()})
            );
        }
    }
    std::process::exit(0);
}

enum ChildResult {
    Exit(i32, String),
    WallTimeout,
    SpawnError(String),
}

fn run_child(seed: u64, idx: usize) -> ChildResult {
    let exe = match std::env::current_exe() {
        Ok(e) => e,
        Err(e) => return ChildResult::SpawnError(e.to_string()),
    };
    let cmd = format!("ulimit -t 60; exec \"{}\" child {} {}", exe.display(), seed, idx);
    let mut child = match Command::new("sh").arg("-c").arg(&cmd).stdout(Stdio::piped()).stderr(Stdio::null()).spawn() {
        Ok(c) => c,
        Err(e) => return ChildResult::SpawnError(e.to_string()),
    };
    let t0 = Instant::now();
    loop {
        match child.try_wait() {
            Ok(Some(st)) => {
                let mut out = String::new();
                if let Some(mut so) = child.stdout.take() {
                    let _ = so.read_to_string(&mut out);
                }
                use std::os::unix::process::ExitStatusExt;
                let code = st.code().unwrap_or_else(|| 128 + st.signal().unwrap_or(0));
                return ChildResult::Exit(code, out);
            }
            Ok(None) => {
                if t0.elapsed() > Duration::from_secs(180) {
                    let _ = child.kill();
                    let _ = child.wait();
                    return ChildResult::WallTimeout;
                }
                std::thread::sleep(Duration::from_millis(5));
            }
            Err(e) => return ChildResult::SpawnError(e.to_string()),
        }
    }
}

pub fn run(ctx: &Ctx) -> (Report, Meta) {
    let meta = Meta::new(
        "hostile right-hand sides, one solve_ivp call per child process: finite-time blow-up (y^2, 1+y^2, exp(y), singularity at several distances and on either side of the origin), sqrt leaving its domain (also with the boundary reached exactly at xend), NaN / +inf returned after a time or in a region of state space or at the initial point, bounded discontinuous forcing, stiff decay (rates 1e4..1e6) with explicit methods, zero right-hand side over spans up to 1e6, NaN in a single component of three, -inf after a time, a sliding mode (y' = -k sign y), right-hand sides of size 1e300..1e307 (internal overflow), one blowing-up component among three, a state-dependent jump of size 3..100; x 6 methods x {unlimited step budget, max_steps 10..1e4} x {plain, t_eval, dense_output, events} x {forward, time-reflected backward} x {no min_step, min_step = 1e-9..1e-3 of the interval for Radau and BDF}; a child that exhausts 2e7 right-hand-side evaluations without progress (the smallest |t - x0| evaluated in a window of 1e6 calls does not grow between the last two windows) (or 60 s of CPU time) is a bounded-work violation; non-trivial = child whose right-hand side actually returned a non-finite value or whose run ended with a non-success status (distinct by case index)",
    )
    .assume("termination is decided as bounded work: logical budget of 2e7 evaluations (>= 1000 x what a terminating solver needs on these problems) plus stall detection; budget exhaustion with continuing progress and the 180 s wall-clock watchdog are inconclusive, never violations")
    .assume("fixed-step RK4 is not error controlled: non-finite values and integration past a singularity are not violations for it")
    .thresholds(json!({"evaluation_budget": BUDGET, "stall_window": STALL_WINDOW, "cpu_seconds": 60, "wall_seconds_inconclusive": 180}))
    .floor("children_run", 300)
    .floor("children_with_nonsuccess_status", 100)
    .floor("children_rhs_went_nonfinite", 60);
    let n = ctx.size(16 * 6 * KINDS.len(), 1_200 * 6 * KINDS.len());
    let rep = par_for(n, "C04", |i, rep| {
        let case_id = format!("child/{}", i);
        if !ctx.want(&case_id) {
            return;
        }
        let h = gen(ctx.seed, i);
        let m = mname(h.scn.method);
        let kn = KINDS[h.kind];
        let case = {
            let mut c = h.scn.describe(h.prob.as_ref());
            c["hostile_kind"] = json!(kn);
            c["child_args"] = json!(format!("child {} {}", ctx.seed, i));
            c
        };
        let sig = |clause: &str| format!("C04/{}/{}/{}", clause, m, kn);
        rep.eval();
        match run_child(ctx.seed, i) {
            ChildResult::SpawnError(e) => rep.harness_error(&format!("cannot spawn child: {}", e)),
            ChildResult::WallTimeout => rep.inconclusive("wall_clock_watchdog"),
            ChildResult::Exit(code, out) => {
                rep.count("children_run", 1);
                let line = out.lines().last().unwrap_or("");
                let v: Value = serde_json::from_str(line).unwrap_or(json!({}));
                match code {
                    0 => {
                        if v["outcome"] == "err" {
                            rep.count("children_returned_err", 1);
                            rep.nontrivial(i as u64);
                            return;
                        }
                        if v["outcome"] != "returned" {
                            rep.harness_error(&format!("child {} printed no verdict line: {:?}", i, out));
                            return;
                        }
                        let status = v["status"].as_str().unwrap_or("").to_string();
                        rep.count(&format!("status_{}", status), 1);
                        let nonfinite_rhs = v["nonfinite_rhs_calls"].as_u64().unwrap_or(0);
                        if nonfinite_rhs > 0 {
                            rep.count("children_rhs_went_nonfinite", 1);
                        }
                        if status != "Success" || nonfinite_rhs > 0 {
                            rep.nontrivial(i as u64);
                        }
                        if status != "Success" {
                            rep.count("children_with_nonsuccess_status", 1);
                        }
                        let mut c2 = case.clone();
                        c2["child_report"] = v.clone();
                        let error_controlled = h.scn.method != Method::RK4;
                        if v["n"] != v["len_y"] {
                            rep.violate(&sig("prefix_valid"), "len(t) != len(y)".into(), &case_id, c2.clone());
                        }
                        if v["ordered"] == false {
                            rep.violate(&sig("prefix_ordered"), "returned samples are not ordered in the direction of integration".into(), &case_id, c2.clone());
                        }
                        if status == "Success" && error_controlled && (v["finite"] == false || v["dense_end_finite"] == false) {
                            rep.violate(&sig("success_nonfinite"), "status Success with non-finite values reported by an error-controlled method".into(), &case_id, c2.clone());
                        }
                        if status == "Success" && error_controlled {
                            if let Some(s) = h.singular_at {
                                let dirn = h.scn.dir();
                                if (h.scn.xend - s) * dirn > 0.0 {
                                    rep.violate(&sig("success_past_singularity"), format!("status Success although the exact solution blows up at t = {:e} inside the interval", s), &case_id, c2.clone());
                                }
                            }
                        }
                        if status != "Success" && h.scn.t_eval.is_none() {
                            // the samples accepted so far must be there
                            let n = v["n"].as_u64().unwrap_or(0);
                            let first_ok = v["first_t"].as_f64().map(|t| t.to_bits() == h.scn.x0.to_bits()).unwrap_or(false);
                            if n == 0 || !first_ok {
                                rep.violate(&sig("prefix_returned"), format!("status {} but the samples accepted so far are missing (n = {})", status, n), &case_id, c2.clone());
                            }
                        }
                        if i % 53 == 0 {
                            rep.sample(json!({"case": case, "child_report": v}));
                        }
                    }
                    77 => rep.violate(&sig("bounded_work"), format!("evaluation budget of {} exhausted without progress during the last {} evaluations: {}", BUDGET, STALL_WINDOW, line), &case_id, case),
                    79 => rep.inconclusive(&format!("budget_exhausted_while_still_progressing_(crawl)_{}_{}", kn, m)),
                    78 => rep.violate(&sig("no_panic"), format!("solve_ivp panicked: {}", v["message"]), &case_id, case),
                    c if c == 128 + 24 || c == 137 || c == 152 => rep.violate(&sig("bounded_work"), format!("CPU-time limit of 60 s hit (exit code {}): the call does not return", c), &case_id, case),
                    c => rep.violate(&sig("no_abort"), format!("child died with exit code {} (abort / signal): {}", c, out), &case_id, case),
                }
            }
        }
    });
    (rep, meta)
}
