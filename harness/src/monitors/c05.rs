//! C05 — t_eval: exactly the requested times, with the interpolated values.
//! Pilot-run adversarial placement, exact sequence comparison, dense twin comparison,
//! early-stop prefix rules.

use super::common::*;
use crate::ctx::{Ctx, Meta};
use crate::probe::*;
use crate::problems::*;
use crate::report::Report;
use crate::rng::Rng;
use crate::util::{bits_eq, next_down, next_up, par_for, EPS};
use ivp::prelude::*;
use serde_json::json;

const PLACEMENTS: [&str; 8] = ["uniform", "on_boundaries", "boundary_pm_1e-12_1e-9", "several_per_step_with_gaps", "duplicates", "random", "boundary_pm_ulps", "only_ends"];
const MODES: [&str; 4] = ["success", "step_budget", "terminal_event", "failing_problem"];

fn toward(x: f64, dir: f64, ulps: usize) -> f64 {
    let mut v = x;
    for _ in 0..ulps {
        v = if dir > 0.0 { next_up(v) } else { next_down(v) };
    }
    v
}

fn place(rng: &mut Rng, kind: usize, grid: &[f64], x0: f64, xend: f64) -> Vec<f64> {
    let dir = (xend - x0).signum();
    let ng = grid.len();
    let mut v: Vec<f64> = Vec::new();
    match kind {
        0 => {
            let m = 2 + rng.below(20);
            for i in 0..=m {
                v.push(x0 + (xend - x0) * i as f64 / m as f64);
            }
            *v.last_mut().unwrap() = xend;
        }
        1 => {
            for (k, &g) in grid.iter().enumerate() {
                if k == 0 || k == ng - 1 || rng.chance(0.5) {
                    v.push(g);
                }
            }
        }
        2 => {
            for &g in grid.iter() {
                let off = *rng.pick(&[1e-12, 1e-9, 3e-13, 2e-11]) * (1.0 + g.abs());
                match rng.below(4) {
                    0 => v.push(g - dir * off),
                    1 => v.push(g + dir * off),
                    2 => {
                        v.push(g - dir * off);
                        v.push(g);
                        v.push(g + dir * off);
                    }
                    _ => {}
                }
            }
        }
        3 => {
            let mut k = 0;
            while k + 1 < ng {
                let (a, b) = (grid[k], grid[k + 1]);
                let m = 1 + rng.below(5);
                let mut th: Vec<f64> = (0..m).map(|_| rng.range(0.02, 0.98)).collect();
                th.sort_by(|p, q| p.partial_cmp(q).unwrap());
                for t in th {
                    v.push(a + (b - a) * t);
                }
                k += 1 + rng.below(4); // skip steps: none in a step
            }
        }
        4 => {
            for &g in grid.iter() {
                if rng.chance(0.4) {
                    v.push(g);
                    if rng.bool() {
                        v.push(g);
                    }
                }
            }
            for k in 0..ng - 1 {
                if rng.chance(0.4) {
                    let t = grid[k] + (grid[k + 1] - grid[k]) * rng.range(0.1, 0.9);
                    v.push(t);
                    v.push(t);
                }
            }
            v.sort_by(|p, q| if dir > 0.0 { p.partial_cmp(q).unwrap() } else { q.partial_cmp(p).unwrap() });
        }
        5 => {
            let m = 1 + rng.below(25);
            for _ in 0..m {
                v.push(x0 + (xend - x0) * rng.f());
            }
            v.sort_by(|p, q| if dir > 0.0 { p.partial_cmp(q).unwrap() } else { q.partial_cmp(p).unwrap() });
        }
        6 => {
            for &g in grid.iter() {
                match rng.below(4) {
                    0 => v.push(toward(g, -dir, 1 + rng.below(12))),
                    1 => v.push(toward(g, dir, 1 + rng.below(12))),
                    2 => {
                        v.push(toward(g, -dir, 1 + rng.below(3)));
                        v.push(g);
                        v.push(toward(g, dir, 1 + rng.below(3)));
                    }
                    _ => {}
                }
            }
        }
        _ => {
            v.push(x0);
            v.push(xend);
        }
    }
    // inside the span, monotone in the direction of integration (duplicates only for kind 4)
    let mut out: Vec<f64> = Vec::new();
    for t in v {
        if (t - x0) * dir < 0.0 || (t - xend) * dir > 0.0 {
            continue;
        }
        match out.last() {
            None => out.push(t),
            Some(&l) => {
                let d = (t - l) * dir;
                if d > 0.0 || (d == 0.0 && kind == 4) {
                    out.push(t);
                }
            }
        }
    }
    if out.is_empty() {
        out.push(xend);
    }
    out
}

pub fn run(ctx: &Ctx) -> (Report, Meta) {
    let k_exact: f64 = 100.0;
    let meta = Meta::new(
        "closed-form problems (linear blocks, logistic, Riccati, Bernoulli, rational, Prothero-Robinson; time-warped and mixed, dim 1..3) x 6 methods x both directions x tolerances; a pilot run reveals the accepted-step grid, then requested times are placed by 8 placement kinds (uniform, exactly on boundaries, boundary +-1e-12/1e-9, several per step with empty steps, duplicates, random, boundary +- 1..12 ulps, only the two ends) x 4 modes (success, step budget, terminal event placed relative to the grid, failing problem with a finite-time singularity). Each case runs t_eval with dense off and on, the twin without t_eval, and the unrestricted run. Non-trivial = case with >= 1 requested time strictly inside a step and >= 1 within 1e-9 of a step boundary (distinct by scenario hash).",
    )
    .assume("the twin run without t_eval has the same step grid: verified per case through the ode-log hash before it is used (else inconclusive)")
    .assume("values at requested times within 1e-11 of a step boundary may come from either adjacent step: compared to rounding, all others bitwise with sol(t) of the dense twin")
    .thresholds(json!({"exact_solution_factor_K": "max(100, K_m of C01)", "either_zone_beyond_stop": "8 ulps"}))
    .floor("cases_checked", 400)
    .floor("requested_times_checked", 4000)
    .floor("values_compared_bitwise_with_dense_twin", 2000)
    .floor("early_stop_cases_checked", 100)
    .floor("terminal_cases_checked", 40)
    .floor("boundary_coincidences", 300);

    let n = ctx.size(160_000, 3_000_000);
    let rep = par_for(n, "C05", |i, rep| {
        let case_id = format!("case/{}", i);
        if !ctx.want(&case_id) {
            return;
        }
        let mut rng = Rng::derive(ctx.seed, 5, i as u64);
        let kind = i % PLACEMENTS.len();
        let mode = (i / PLACEMENTS.len()) % MODES.len();
        let method = METHODS[(i / 32) % 6];
        let m = mname(method);
        let dir = if rng.bool() { 1.0 } else { -1.0 };
        let x0 = match rng.below(4) {
            0 => 0.0,
            1 => rng.range(-2.0, 2.0),
            2 => rng.sign() * rng.range(5.0, 40.0),
            _ => 0.5,
        };
        let span = rng.logu(0.3, 6.0);
        let mut xend = x0 + dir * span;
        let (prob, amp): (Composite, f64) = if mode == 3 {
            // u' = 1 + u^2 from u0: singular at tau = pi/2 - atan(u0); integrate past it (forward in s)
            let u0 = rng.range(-0.3, 0.8);
            let c = Composite::new(vec![Base::Tan { u0 }], Warp::Id, None, x0);
            let tsing = std::f64::consts::FRAC_PI_2 - u0.atan();
            xend = x0 + tsing * rng.range(1.2, 2.5);
            (c, 1.0)
        } else {
            random_composite(&mut rng, x0, xend, 3, 10.0)
        };
        let dir = (xend - x0).signum();
        let nst = prob.dim();
        let mut base = Scn::new(method, x0, xend, prob.y0());
        let (rt, at) = random_tols(&mut rng, method, nst);
        base.rtol = rt;
        base.atol = at;
        base.user_jac = is_implicit(method) && rng.bool();
        if method == Method::RK4 {
            base.first_step = Some(dir * (xend - x0).abs() / (15.0 + rng.below(40) as f64));
            if mode == 3 {
                return; // fixed-step RK4 does not stop at a singularity (not an error-controlled method)
            }
        }
        base.budget = 300_000;
        let case0 = base.describe(&prob);
        let sig = |clause: &str| format!("C05/{}/{}/{}+{}", clause, m, PLACEMENTS[kind], MODES[mode]);

        // pilot (plain) run: reveals the grid
        let pilot = run_solve(&prob, &base, false, false);
        let grid: Vec<f64> = match &pilot.out {
            Outcome::Ok(s) if s.t.len() >= 2 && (mode == 3 || s.status == Status::Success) => s.t.clone(),
            Outcome::Panic(msg) => {
                rep.violate(&sig("no_panic"), format!("panic: {}", msg), &case_id, case0);
                return;
            }
            _ => {
                rep.inconclusive("pilot_run_unusable");
                return;
            }
        };
        if mode == 3 && matches!(pilot.out.sol().map(|s| s.status), Some(Status::Success)) {
            rep.inconclusive("failing_problem_did_not_fail");
            return;
        }
        let nacc = grid.len() - 1;
        // the restricted scenario
        let mut scn = base.clone();
        let mut t_event: Option<f64> = None;
        match mode {
            1 => {
                if nacc < 3 {
                    rep.inconclusive("too_few_steps_for_a_budget");
                    return;
                }
                scn.max_steps = Some(1 + rng.below(nacc - 1));
            }
            2 => {
                // terminal time event placed relative to the grid
                let k = rng.below(nacc);
                let (a, b) = (grid[k], grid[k + 1]);
                let c = match rng.below(5) {
                    0 => a + (b - a) * rng.range(0.05, 0.95),
                    1 => toward(b, -dir, 1 + rng.below(5)),
                    2 => a + (b - a) * 1e-9,
                    3 => b - (b - a) * 1e-9,
                    _ => 0.5 * (a + b),
                };
                if (c - x0) * dir <= 0.0 || (c - xend) * dir >= 0.0 {
                    rep.inconclusive("event_not_strictly_inside");
                    return;
                }
                scn.events = vec![EvSpec { kind: EvKind::Time { c }, dir: 0, terminal: Some(1) }];
                t_event = Some(c);
            }
            _ => {}
        }
        let te = place(&mut rng, kind, &grid, x0, xend);
        let mut sa = scn.clone();
        sa.t_eval = Some(te.clone());
        sa.dense = false;
        let mut sb = sa.clone();
        sb.dense = true;
        let mut st = scn.clone();
        st.dense = true;
        let ra = run_solve(&prob, &sa, false, false);
        let rb = run_solve(&prob, &sb, false, false);
        let rtw = run_solve(&prob, &st, false, false);
        rep.evals(4);
        let mut case = sa.describe(&prob);
        case["t_eval_full"] = json!(te);
        case["grid"] = crate::util::jv_trunc(&grid, 40);
        let (a, b, tw) = match (&ra.out, &rb.out, &rtw.out) {
            (Outcome::Ok(a), Outcome::Ok(b), Outcome::Ok(t)) => (a, b, t),
            (Outcome::Panic(msg), _, _) | (_, Outcome::Panic(msg), _) | (_, _, Outcome::Panic(msg)) => {
                rep.violate(&sig("no_panic"), format!("panic: {}", msg), &case_id, case);
                return;
            }
            _ => {
                rep.inconclusive("run_not_ok");
                return;
            }
        };
        if ra.log.ode_hash != rtw.log.ode_hash || rb.log.ode_hash != rtw.log.ode_hash {
            rep.inconclusive("twin_grid_differs_(C12_precondition)");
            return;
        }
        rep.count("cases_checked", 1);
        // nontriviality
        let tgrid = &tw.t;
        let near = |t: f64| tgrid.iter().any(|&g| (t - g).abs() <= 1e-9 * (1.0 + g.abs()));
        let strictly_inside = |t: f64| tgrid.iter().all(|&g| g != t);
        if te.iter().any(|&t| near(t)) && te.iter().any(|&t| strictly_inside(t) && !near(t)) {
            rep.nontrivial(scn_hash(&sa, &prob));
        }
        rep.count("boundary_coincidences", te.iter().filter(|&&t| near(t)).count() as u64);

        // ---- dense toggle must not change the values
        if !bits_eq(&a.t, &b.t) || !crate::util::bits_eq2(&a.y, &b.y) || a.status != b.status {
            rep.violate(&sig("dense_toggle_changes_values"), "t/y reported with dense_output on and off differ bitwise".into(), &case_id, case.clone());
        }
        if a.t.len() != a.y.len() {
            rep.violate(&sig("len_t_eq_len_y"), format!("len(t)={} len(y)={}", a.t.len(), a.y.len()), &case_id, case.clone());
            return;
        }
        // ---- expected sequence
        let stop = *tw.t.last().unwrap();
        let stopped_early = a.status != Status::Success;
        let mut reported = a.t.clone();
        let mut reported_y = a.y.clone();
        if a.status == Status::UserInterrupt {
            rep.count("terminal_cases_checked", 1);
            // final entry must be the event point
            let ok = reported.last().map(|t| t.to_bits()) == Some(stop.to_bits()) && bits_eq(reported_y.last().unwrap(), tw.y.last().unwrap());
            if !ok {
                rep.violate(&sig("terminal_point_last"), format!("last reported entry {:?} is not the terminal event point {:e}", reported.last(), stop), &case_id, case.clone());
                return;
            }
            reported.pop();
            reported_y.pop();
        }
        if stopped_early {
            rep.count("early_stop_cases_checked", 1);
        }
        let prev_pt = if tw.t.len() >= 2 { tw.t[tw.t.len() - 2] } else { stop };
        let slack = 10.0 * EPS * stop.abs().max(prev_pt.abs()).max(1e-300); // the code uses 8 eps max(|xold|,|x|) and rounds x + tol
        // requested times not beyond the stopping point (definitely) / within the either-zone
        let must: Vec<f64> = te.iter().cloned().filter(|&t| (t - stop) * dir <= 0.0 || !stopped_early).collect();
        let may: Vec<f64> = te.iter().cloned().filter(|&t| stopped_early && (t - stop) * dir > 0.0 && (t - stop) * dir <= slack).collect();
        let ok_seq = if reported.len() >= must.len() && reported.len() <= must.len() + may.len() {
            bits_eq(&reported[..must.len()], &must) && bits_eq(&reported[must.len()..], &may[..reported.len() - must.len()])
        } else {
            false
        };
        rep.count("requested_times_checked", te.len() as u64);
        if !ok_seq {
            let clause = if !stopped_early {
                "exact_times_on_success"
            } else if reported.len() < must.len() {
                "early_stop_missing_times"
            } else {
                "early_stop_extra_times"
            };
            rep.violate(
                &sig(clause),
                format!("status {:?}, stop at {:e}: requested {} times, {} of them not beyond the stop; reported {} (first difference shown in case)", a.status, stop, te.len(), must.len(), reported.len()),
                &case_id,
                {
                    let mut c = case.clone();
                    c["reported_t"] = crate::util::jv_trunc(&a.t, 60);
                    c["expected_t"] = crate::util::jv_trunc(&must, 60);
                    c
                },
            );
            return;
        }
        // ---- values
        // one tolerance scale per component for the whole run: the error present at a requested time was committed
        // where |y_j| was large; the requested time itself may sit at a zero crossing of that component
        let ymax: Vec<f64> = (0..nst)
            .map(|j| reported.iter().filter_map(|&t| prob.exact(t)).fold(sa.y0[j].abs(), |mx, ex| if ex[j].is_finite() { mx.max(ex[j].abs()) } else { mx }))
            .collect();
        let scale_at = |_y: &[f64], j: usize| sa.atol.at(j) + sa.rtol.at(j) * ymax[j];
        for (k, &t) in reported.iter().enumerate() {
            let v = &reported_y[k];
            if v.len() != nst {
                rep.violate(&sig("sample_dimension"), format!("value at t={:e} has dimension {}", t, v.len()), &case_id, case.clone());
                return;
            }
            // vs dense twin
            if t.to_bits() == x0.to_bits() {
                if !bits_eq(v, &sa.y0) {
                    rep.violate(&sig("value_at_x0"), format!("value reported at x0 is {:?}, y0 = {:?}", v, sa.y0), &case_id, case.clone());
                }
            } else if v.iter().any(|x| !(x.abs() < 1e8)) {
                // blow-up region of the failing problem: adjacent interpolants legitimately disagree wildly
                rep.count("values_skipped_in_blowup_region", 1);
            } else if let Ok(w) = b.sol(t) {
                let on_grid = tgrid.iter().any(|&g| g.to_bits() == t.to_bits());
                let far = tgrid.iter().all(|&g| g.to_bits() == t.to_bits() || (t - g).abs() > 1e-11 * (1.0 + g.abs()));
                if far && (on_grid || true) {
                    rep.count("values_compared_bitwise_with_dense_twin", 1);
                    if !bits_eq(v, &w) {
                        rep.violate(&sig("value_is_interpolant"), format!("value at t={:e} is {:?} but sol(t) of the dense twin is {:?}", t, v, w), &case_id, case.clone());
                        break;
                    }
                } else {
                    let mut f = vec![0.0; nst];
                    prob.f(t, &w, &mut f);
                    for j in 0..nst {
                        let den = 64.0 * EPS * (w[j].abs() + (1.0 + t.abs()) * f[j].abs()) + 1e-11 * (1.0 + t.abs()) * f[j].abs();
                        if (v[j] - w[j]).abs() > den {
                            rep.violate(&sig("value_is_interpolant_near_boundary"), format!("value at t={:e} (near a step boundary) is {:?}, sol(t) = {:?}", t, v, w), &case_id, case.clone());
                            break;
                        }
                    }
                    rep.count("values_compared_to_rounding_near_boundary", 1);
                }
            } else if (t - stop) * dir <= 0.0 {
                rep.violate(&sig("dense_twin_cannot_evaluate"), format!("sol({:e}) of the dense twin failed although t is not beyond the stop {:e}", t, stop), &case_id, case.clone());
            }
            // vs exact solution
            if method != Method::RK4 && v.iter().all(|x| x.is_finite()) && mode != 3 {
                if let Some(ex) = prob.exact(t) {
                    for j in 0..nst {
                        let bound = k_exact.max(super::c01::k_method(method)) * amp * (tw.naccpt.max(1) as f64) * scale_at(&ex, j);
                        let err = (v[j] - ex[j]).abs();
                        rep.worst(&format!("err_over_naccpt_tol_{}", m), err / (amp * (tw.naccpt.max(1) as f64) * scale_at(&ex, j)));
                        if err > bound {
                            rep.violate(&sig("value_accuracy"), format!("value at t={:e} comp {} is {:e}, exact {:e}: error {:e} > {:e}", t, j, v[j], ex[j], err, bound), &case_id, case.clone());
                            break;
                        }
                    }
                }
            }
        }
        // ---- prefix of the unrestricted run (budget / terminal)
        if stopped_early && (mode == 1 || mode == 2) {
            let mut sf = base.clone();
            sf.t_eval = Some(te.clone());
            if mode == 2 {
                // same event, not terminal
                sf.events = scn.events.clone();
                for e in sf.events.iter_mut() {
                    e.terminal = None;
                }
            }
            let rf = run_solve(&prob, &sf, false, false);
            if let Outcome::Ok(f) = &rf.out {
                let kmax = reported.len().min(f.t.len());
                // points whose step is complete in both runs: all reported ones
                for k in 0..kmax {
                    if f.t[k].to_bits() != reported[k].to_bits() || !bits_eq(&f.y[k], &reported_y[k]) {
                        rep.violate(&sig("prefix_of_unrestricted_run"), format!("entry {} (t={:e}) differs bitwise from the run without the budget / terminal flag", k, reported[k]), &case_id, case.clone());
                        break;
                    }
                }
                rep.count("prefix_entries_compared", kmax as u64);
            }
        }
        let _ = t_event;
        if i % 331 == 0 {
            rep.sample(json!({"scenario": case, "status": format!("{:?}", a.status), "reported": a.t.len(), "requested": te.len(), "placement": PLACEMENTS[kind], "mode": MODES[mode]}));
        }
    });
    (rep, meta)
}
