//! C06 — dense output is continuous, matches the samples and covers exactly the span.

use super::common::*;
use crate::ctx::{Ctx, Meta};
use crate::probe::*;
use crate::problems::{Problem, Simple};
use crate::report::Report;
use crate::rng::Rng;
use crate::util::{bits_eq, next_down, next_up, par_for, EPS};
use ivp::error::{Error, InterpolationError};
use ivp::prelude::*;
use serde_json::json;

/// rounding bound for a state value at a step end: K eps (|y| + |h f|) per component, as a ratio
fn round_ratio(got: &[f64], want: &[f64], hf: &[f64]) -> f64 {
    let mut r: f64 = 0.0;
    for i in 0..got.len() {
        let d = (got[i] - want[i]).abs();
        let den = EPS * (want[i].abs() + hf[i].abs());
        if d == 0.0 {
            continue;
        }
        if den == 0.0 {
            return f64::INFINITY;
        }
        r = r.max(d / den);
    }
    r
}

pub fn run(ctx: &Ctx) -> (Report, Meta) {
    let k_round = 64.0;
    let meta = Meta::new(
        "(a) low-level builders with a recording SolOut on bounded and discontinuous problems (forcing rejections) and, for Radau and BDF, stiff Van der Pol oscillators (mu 10..1000, through a relaxation jump), 6 methods, both directions, tolerances, max_step clamps: for every accepted step the interpolant handed to the callback is evaluated at both step ends and compared with the previous and the new state; steps following a rejection and BDF order changes are counted; one case in four runs with dense_output off and a callback that asks for interpolants on demand (XOut), every interpolant handed over is held to the same identities; (b) solve_ivp with dense_output: sol(t_i) vs stored samples, sol/sol_many succeed on the covered span (stored times, midpoints, boundaries +-1 ulp, span ends, random interior; sol_many with the query times as collected, increasing, decreasing and single, bitwise equal to sol) and return OutOfRange clearly outside, sol_span contains x0 and the last reported time, NotEnabled when disabled, zero-length run, runs ended by terminal events and step budgets; non-trivial = run with >= 3 segments (distinct by scenario hash)",
    )
    .assume("rounding bound for endpoint identities: 64 eps (|y| + (|h|+|t|) max(|f|, |secant slope of the step|)) componentwise (the |t||f| term is the effect of one ulp of the evaluation time) (calibrated: worst observed on the unchanged tree is recorded in worst_observed)")
    .thresholds(json!({"endpoint_rounding_factor": k_round, "clearly_outside": "1e-9*span + 1e-9"}))
    .floor("callback_interpolants_checked", 5000)
    .floor("steps_after_rejection_checked", 100)
    .floor("bdf_order_changes_seen", 20)
    .floor("sol_evaluations_inside_span", 5000)
    .floor("out_of_range_probes", 500)
    .floor("not_enabled_probes", 100);

    // ---------------- (a) low level ----------------
    let nlow = ctx.size(80_000, 1_000_000);
    let g = GenOpts { allow_max_step: true, bidirectional_problems: true, ..Default::default() };
    let rep = par_for(nlow, "C06", |i, rep| {
        let case_id = format!("low/{}", i);
        if !ctx.want(&case_id) {
            return;
        }
        let mut rng = Rng::derive(ctx.seed, 6, i as u64);
        let (mut prob, mut scn) = gen_case(&mut rng, &g);
        if i % 3 == 0 {
            // discontinuous forcing / sharp transients => rejections (forward only: damped)
            prob = if rng.bool() { Simple::Disc { w: rng.range(1.0, 5.0) } } else { Simple::VdP { mu: rng.range(1.0, 4.0) } };
            scn.y0 = prob.y0(&mut rng);
            let span = (scn.xend - scn.x0).abs();
            scn.xend = scn.x0 + span;
            scn.rtol = Tol::S(scn.rtol.at(0));
            scn.atol = Tol::S(scn.atol.at(0));
        }
        if matches!(scn.method, Method::RADAU | Method::BDF) && i % 5 == 1 {
            // stiff relaxation oscillation: Newton failures, rejected steps and step sizes over six decades
            let mu = rng.logu(10.0, 1000.0);
            prob = Simple::VdP { mu };
            scn.y0 = vec![2.0, 0.0];
            scn.x0 = 0.0;
            scn.xend = rng.range(0.3, 2.0) * mu;
            let rt = rng.logu(1e-7, 1e-3);
            scn.rtol = Tol::S(rt);
            scn.atol = Tol::S(rt * rng.logu(1e-3, 1.0));
            scn.max_step = None;
            rep.count("stiff_van_der_pol_runs", 1);
        }
        let m = mname(scn.method);
        let mut probe = Probe::new(&prob, scn.x0);
        probe.user_jac = scn.user_jac;
        probe.budget = 600_000;
        // one case in four runs with dense_output off and asks for interpolants on demand (the callback answers XOut(xo) at
        // some callback): whatever interpolant the solver then hands over must be as valid as with dense_output on
        let on_demand = i % 4 == 3;
        let lo = LowOpts { dense: !on_demand, max_step: scn.max_step, ..Default::default() };
        let mut so = RecSolOut::new(Some(&probe));
        so.thetas = vec![0.0, 1.0, 0.37, 0.81];
        so.keep_seg = scn.method == Method::BDF;
        if on_demand {
            let at = if rng.bool() { 0 } else { 1 + rng.below(6) };
            let xo = scn.x0 + (scn.xend - scn.x0) * rng.range(0.0, 0.9);
            so.script = vec![(at, Action::XOut(xo))];
        }
        let out = run_low_guarded(scn.method, &probe, scn.x0, &scn.y0, scn.xend, &scn.rtol, &scn.atol, &lo, &mut so);
        rep.eval();
        let case = scn.describe(&prob);
        match out {
            LowOutcome::Budget => {
                rep.inconclusive("evaluation_budget_exhausted");
                return;
            }
            LowOutcome::Err(_) => {
                rep.count("config_errors_returned", 1);
                return;
            }
            LowOutcome::Panic(msg) => {
                rep.violate(&format!("C06/no_panic/{}/low_level", m), format!("panic: {}", msg), &case_id, case);
                return;
            }
            LowOutcome::Ok(_) => {}
        }
        let n = scn.y0.len();
        let stage_calls: u64 = match scn.method {
            Method::RK4 => 4,
            Method::RK23 => 3,
            Method::DOPRI5 => 6,
            Method::DOP853 => 15,
            _ => 0,
        };
        if so.cbs.len() >= 4 {
            rep.nontrivial(scn_hash(&scn, &prob));
        }
        let mut prev_order: Option<f64> = None;
        for k in 1..so.cbs.len() {
            let cb = &so.cbs[k];
            let pv = &so.cbs[k - 1];
            if !cb.has_interp {
                if on_demand {
                    continue;
                }
                rep.violate(&format!("C06/interpolant_missing/{}/low_level", m), format!("callback {} received no interpolant although dense output is enabled", k), &case_id, case.clone());
                break;
            }
            if on_demand {
                rep.count("on_demand_interpolants_checked", 1);
            }
            let h = cb.x - cb.xold;
            let mut f_old = vec![0.0; n];
            let mut f_new = vec![0.0; n];
            prob.f(cb.xold, &pv.y_after, &mut f_old);
            prob.f(cb.x, &cb.y, &mut f_new);
            // slope scale of the interpolant: |f| at the end point or the secant slope of the step, whichever is larger
            // (at an extremum inside a relaxation jump f vanishes while the polynomial is steep)
            let tscale = h.abs() + cb.xold.abs().max(cb.x.abs());
            let sec: Vec<f64> = (0..n).map(|j| ((cb.y[j] - pv.y_after[j]) / h).abs()).collect();
            let hf_old: Vec<f64> = (0..n).map(|j| f_old[j].abs().max(sec[j]) * tscale).collect();
            let hf_new: Vec<f64> = (0..n).map(|j| f_new[j].abs().max(sec[j]) * tscale).collect();
            let r_left = round_ratio(&cb.interp[0], &pv.y_after, &hf_old);
            let r_right = round_ratio(&cb.interp[1], &cb.y, &hf_new);
            rep.count("callback_interpolants_checked", 1);
            rep.worst(&format!("endpoint_left_ratio_{}", m), r_left);
            rep.worst(&format!("endpoint_right_ratio_{}", m), r_right);
            let after_rej = stage_calls > 0 && cb.calls_at_entry - pv.calls_at_entry > stage_calls + if scn.method == Method::DOP853 { 1 } else { 0 };
            if after_rej {
                rep.count("steps_after_rejection_checked", 1);
            }
            if is_implicit(scn.method) && cb.calls_at_entry - pv.calls_at_entry > 12 {
                rep.count("steps_after_rejection_checked", 1);
            }
            let mut cls = if on_demand { "on_demand" } else { "regular" };
            if scn.method == Method::BDF && !cb.cont.is_empty() {
                let ord = cb.cont[6];
                if let Some(po) = prev_order {
                    if po != ord {
                        rep.count("bdf_order_changes_seen", 1);
                        cls = "after_order_change";
                    }
                }
                prev_order = Some(ord);
            }
            if r_left > k_round {
                rep.violate(
                    &format!("C06/interpolant_left_end/{}/{}", m, cls),
                    format!("step {} [{:e},{:e}]: interpolant at the left end differs from the previous state by {:.1} x eps(|y|+|hf|) (got {:?}, state {:?})", k, cb.xold, cb.x, r_left, cb.interp[0], pv.y_after),
                    &case_id,
                    case.clone(),
                );
                break;
            }
            if r_right > k_round {
                rep.violate(
                    &format!("C06/interpolant_right_end/{}/{}", m, cls),
                    format!("step {} [{:e},{:e}]: interpolant at the right end differs from the new state by {:.1} x eps(|y|+|hf|)", k, cb.xold, cb.x, r_right),
                    &case_id,
                    case.clone(),
                );
                break;
            }
            // the interpolant must describe this very step
            if let Some((ix, ih)) = cb.step_params {
                let st = rt_slack(scn.method, cb.xold, cb.x, 4) * 4.0;
                if (ix - cb.xold).abs() > st || (ix + ih - cb.x).abs() > st {
                    rep.violate(
                        &format!("C06/interpolant_interval/{}/{}", m, cls),
                        format!("callback interval is [{:e},{:e}] but the interpolant covers [{:e},{:e}]", cb.xold, cb.x, ix, ix + ih),
                        &case_id,
                        case.clone(),
                    );
                    break;
                }
            }
        }
        if on_demand {
            // an interpolant handed over on demand is the interpolant of that step: bit for bit what the same run hands over
            // with dense_output on (C12 holds the two runs to the same steps), at the ends and inside the step
            let probe2 = {
                let mut p2 = Probe::new(&prob, scn.x0);
                p2.user_jac = scn.user_jac;
                p2.budget = 600_000;
                p2
            };
            let lo2 = LowOpts { dense: true, max_step: scn.max_step, ..Default::default() };
            let mut so2 = RecSolOut::new(Some(&probe2));
            so2.thetas = so.thetas.clone();
            if let LowOutcome::Ok(_) = run_low_guarded(scn.method, &probe2, scn.x0, &scn.y0, scn.xend, &scn.rtol, &scn.atol, &lo2, &mut so2) {
                if so2.cbs.len() == so.cbs.len() {
                    for k in 1..so.cbs.len() {
                        let (a, b) = (&so.cbs[k], &so2.cbs[k]);
                        if !a.has_interp || !b.has_interp || a.x.to_bits() != b.x.to_bits() {
                            continue;
                        }
                        rep.count("on_demand_interpolants_compared_with_dense_twin", 1);
                        if let Some(q) = (0..a.interp.len()).find(|&q| !bits_eq(&a.interp[q], &b.interp[q])) {
                            rep.violate(
                                &format!("C06/on_demand_interpolant_differs/{}/on_demand", m),
                                format!("step {} [{:e},{:e}]: the interpolant handed over on demand gives {:?} at theta = {}, the one of the same step with dense_output on gives {:?}", k, a.xold, a.x, a.interp[q], so.thetas[q], b.interp[q]),
                                &case_id,
                                case.clone(),
                            );
                            break;
                        }
                    }
                }
            }
        }
        if i % 499 == 0 {
            rep.sample(json!({"api": "low_level", "scenario": case, "callbacks": so.cbs.len()}));
        }
    });

    // ---------------- (b) solve_ivp ----------------
    let nhi = ctx.size(80_000, 1_000_000);
    let g2 = GenOpts {
        allow_max_step: true,
        allow_max_steps: true,
        allow_events: true,
        allow_terminal: true,
        allow_first_step: true,
        bidirectional_problems: true,
        ..Default::default()
    };
    let rep2 = par_for(nhi, "C06", |i, rep| {
        let case_id = format!("sol/{}", i);
        if !ctx.want(&case_id) {
            return;
        }
        let mut rng = Rng::derive(ctx.seed, 66, i as u64);
        let (prob, mut scn) = gen_case(&mut rng, &g2);
        let (prob, mut scn) = (prob, scn);
        let mut prob = prob;
        if matches!(scn.method, Method::RADAU | Method::BDF) && i % 5 == 1 {
            let mu = rng.logu(10.0, 1000.0);
            prob = Simple::VdP { mu };
            scn.y0 = vec![2.0, 0.0];
            scn.x0 = 0.0;
            scn.xend = rng.range(0.3, 2.0) * mu;
            let rt = rng.logu(1e-7, 1e-3);
            scn.rtol = Tol::S(rt);
            scn.atol = Tol::S(rt * rng.logu(1e-3, 1.0));
            scn.max_step = None;
            scn.first_step = None;
            scn.events.clear();
            scn.max_steps = None;
            rep.count("stiff_van_der_pol_runs", 1);
        }
        let m = mname(scn.method);
        scn.t_eval = None;
        if i % 9 == 4 && scn.method != Method::RK4 {
            // accepted steps far below 1e-12: they are part of the covered span too
            scn.first_step = Some(scn.dir() * rng.logu(1e-14, 1e-11) * (1.0 + scn.x0.abs()));
        }
        let zero_len = i % 53 == 0;
        if zero_len {
            scn.xend = scn.x0;
            scn.events.clear();
        }
        // dense disabled one time in five: NotEnabled
        scn.dense = i % 5 != 0;
        let res = run_solve(&prob, &scn, false, false);
        rep.eval();
        let case = scn.describe(&prob);
        let sol = match &res.out {
            Outcome::Ok(s) => s,
            Outcome::Budget => {
                rep.inconclusive("evaluation_budget_exhausted");
                return;
            }
            Outcome::Err(_) => {
                rep.count("config_errors_returned", 1);
                return;
            }
            Outcome::Panic(msg) => {
                rep.violate(&format!("C06/no_panic/{}/solve_ivp", m), format!("panic: {}", msg), &case_id, case);
                return;
            }
        };
        if !scn.dense {
            rep.count("not_enabled_probes", 1);
            let t = sol.t.first().copied().unwrap_or(scn.x0);
            let e1 = sol.sol(t);
            let e2 = sol.sol_many(&[t]);
            let ok1 = matches!(e1, Err(Error::Interpolation(InterpolationError::NotEnabled)));
            let ok2 = matches!(e2, Err(Error::Interpolation(InterpolationError::NotEnabled)));
            if !ok1 || !ok2 || sol.sol_span().is_some() {
                rep.violate(&format!("C06/not_enabled/{}/dense_off", m), format!("dense output disabled but sol -> {:?}, sol_span -> {:?}", e1.map(|v| v.len()), sol.sol_span()), &case_id, case);
            }
            return;
        }
        if zero_len {
            rep.count("zero_length_runs", 1);
            match sol.sol(scn.x0) {
                Ok(v) if bits_eq(&v, &scn.y0) => {}
                other => rep.violate(&format!("C06/zero_length/{}/dense_on", m), format!("zero-length run: sol(x0) = {:?}, y0 = {:?}", other, scn.y0), &case_id, case),
            }
            return;
        }
        if sol.t.len() < 2 {
            rep.inconclusive("fewer_than_two_samples");
            return;
        }
        let cls = if sol.status == Status::Success { "success" } else if sol.status == Status::UserInterrupt { "terminal" } else { "early_stop" };
        let Some((a, b)) = sol.sol_span() else {
            rep.violate(&format!("C06/span_missing/{}/{}", m, cls), "dense output enabled but sol_span() is None".into(), &case_id, case);
            return;
        };
        let (lo, hi) = (a.min(b), a.max(b));
        let tl = *sol.t.last().unwrap();
        let rt = rt_slack(scn.method, scn.x0, tl, sol.t.len()) * 2.0;
        if scn.x0 < lo - rt || scn.x0 > hi + rt || tl < lo - rt || tl > hi + rt {
            rep.violate(&format!("C06/span_covers_samples/{}/{}", m, cls), format!("sol_span = ({:e},{:e}) does not contain x0 = {:e} and the last reported time {:e}", a, b, scn.x0, tl), &case_id, case.clone());
            return;
        }
        if sol.t.len() >= 4 {
            rep.nontrivial(scn_hash(&scn, &prob));
        }
        let n = scn.y0.len();
        let span = hi - lo;
        // inside: stored times, midpoints, +-1ulp around boundaries, ends, random
        let mut inside: Vec<f64> = Vec::new();
        for w in sol.t.windows(2) {
            inside.push(w[0]);
            inside.push(0.5 * (w[0] + w[1]));
            inside.push(next_up(w[0]).min(hi));
            inside.push(next_down(w[0]).max(lo));
        }
        inside.push(tl);
        inside.push(lo);
        inside.push(hi);
        for _ in 0..6 {
            inside.push(lo + span * rng.f());
        }
        inside.retain(|t| *t >= lo && *t <= hi);
        if inside.len() > 240 {
            // long runs: keep a random subset (find_segment is a linear scan)
            let mut keep = Vec::with_capacity(240);
            for _ in 0..240 {
                keep.push(inside[rng.below(inside.len())]);
            }
            inside = keep;
        }
        for &t in &inside {
            rep.count("sol_evaluations_inside_span", 1);
            match sol.sol(t) {
                Ok(v) if v.len() == n => {}
                other => {
                    rep.violate(&format!("C06/sol_fails_inside_span/{}/{}", m, cls), format!("sol({:e}) inside sol_span ({:e},{:e}) -> {:?}", t, a, b, other.map(|v| v.len())), &case_id, case.clone());
                    return;
                }
            }
        }
        // sol_many agrees with sol, whatever the order of the query times (as collected, increasing, decreasing — a sweep
        // over sorted queries must not assume the direction of integration — and a single time)
        let mut orders: Vec<(&str, Vec<f64>)> = vec![("as_collected", inside.clone())];
        let mut inc = inside.clone();
        inc.sort_by(|a, b| a.partial_cmp(b).unwrap());
        let mut dec = inc.clone();
        dec.reverse();
        orders.push(("increasing", inc));
        orders.push(("decreasing", dec));
        orders.push(("single", vec![inside[rng.below(inside.len())]]));
        for (oname, q) in &orders {
            rep.count("sol_many_query_orders_checked", 1);
            if let Ok(many) = sol.sol_many(q) {
                if many.len() != q.len() {
                    rep.violate(&format!("C06/sol_many_differs/{}/{}", m, cls), format!("sol_many returned {} states for {} query times ({})", many.len(), q.len(), oname), &case_id, case.clone());
                    continue;
                }
                for (k, &t) in q.iter().enumerate() {
                    let single = match sol.sol(t) {
                        Ok(v) => v,
                        Err(_) => continue,
                    };
                    if !bits_eq(&many[k], &single) {
                        rep.violate(&format!("C06/sol_many_differs/{}/{}", m, cls), format!("sol_many ({} query times) and sol differ at t = {:e}", oname, t), &case_id, case.clone());
                        break;
                    }
                }
            } else {
                rep.violate(&format!("C06/sol_fails_inside_span/{}/{}", m, cls), format!("sol_many failed on points inside the span ({} query times)", oname), &case_id, case.clone());
            }
        }
        // stored samples reproduced (terminal event point included)
        let first_step_games = scn.first_step.is_some();
        let stride = (sol.t.len() / 150).max(1);
        for k in (0..sol.t.len()).filter(|k| k % stride == 0 || *k + 2 >= sol.t.len() || *k < 2) {
            let t = sol.t[k];
            let v = match sol.sol(t) {
                Ok(v) => v,
                Err(e) => {
                    rep.violate(&format!("C06/sol_fails_at_sample/{}/{}", m, cls), format!("sol(t[{}]={:e}) failed: {:?}", k, t, e), &case_id, case.clone());
                    break;
                }
            };
            let h = if k + 1 < sol.t.len() { sol.t[k + 1] - t } else { t - sol.t[k - 1] };
            let h2 = if k > 0 { t - sol.t[k - 1] } else { h };
            let hh = h.abs().max(h2.abs());
            let mut f = vec![0.0; n];
            prob.f(t, &sol.y[k], &mut f);
            let sec = |a: usize, b: usize, j: usize| -> f64 { ((sol.y[b][j] - sol.y[a][j]) / (sol.t[b] - sol.t[a])).abs() };
            let hf: Vec<f64> = (0..n)
                .map(|j| {
                    let mut sl = f[j].abs();
                    if k + 1 < sol.t.len() && sol.t[k + 1] != t {
                        sl = sl.max(sec(k, k + 1, j));
                    }
                    if k > 0 && sol.t[k - 1] != t {
                        sl = sl.max(sec(k - 1, k, j));
                    }
                    sl * (hh + t.abs())
                })
                .collect();
            let r = round_ratio(&v, &sol.y[k], &hf);
            rep.worst(&format!("sample_reproduction_ratio_{}", m), r);
            rep.count("samples_reproduced_checked", 1);
            if r > k_round && !(first_step_games && k == 1) {
                rep.violate(
                    &format!("C06/sample_reproduction/{}/{}", m, cls),
                    format!("sol(t[{}]={:e}) differs from the stored sample by {:.1} x eps(|y|+|hf|): {:?} vs {:?}", k, t, r, v, sol.y[k]),
                    &case_id,
                    case.clone(),
                );
                break;
            }
        }
        // clearly outside
        let margin = 1e-9 * span + 1e-9;
        for &t in &[lo - 1.5 * margin, hi + 1.5 * margin, lo - span - 1.0, hi + 10.0 * span + 1.0] {
            rep.count("out_of_range_probes", 1);
            match sol.sol(t) {
                Err(Error::Interpolation(InterpolationError::OutOfRange { .. })) => {}
                other => {
                    rep.violate(&format!("C06/out_of_range_accepted/{}/{}", m, cls), format!("sol({:e}) clearly outside sol_span ({:e},{:e}) -> {:?}", t, a, b, other.map(|v| v.len())), &case_id, case.clone());
                    break;
                }
            }
            if !matches!(sol.sol_many(&[0.5 * (lo + hi), t]), Err(Error::Interpolation(InterpolationError::OutOfRange { .. }))) {
                rep.violate(&format!("C06/out_of_range_accepted/{}/{}", m, cls), format!("sol_many with one time {:e} clearly outside the span did not return OutOfRange", t), &case_id, case.clone());
                break;
            }
        }
        if i % 499 == 0 {
            rep.sample(json!({"api": "solve_ivp", "scenario": case, "segments": sol.t.len() - 1, "sol_span": [a, b]}));
        }
    });
    let mut rep = rep;
    rep.merge(rep2);
    (rep, meta)
}
