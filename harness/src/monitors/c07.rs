//! C07 — dense output is accurate to the interpolant's order inside every step.
//! O1: continuous order conditions on the extracted dense weights b_j(theta) (explicit RK);
//! O2: Radau interpolant = collocation polynomial on linear problems;
//! O3: empirical interior-error slopes (all methods), BDF interior vs endpoint accuracy.

use super::c02::{variants, EXPLICIT};
use crate::ctx::{Ctx, Meta};
use crate::extract::*;
use crate::probe::*;
use crate::problems::*;
use crate::report::Report;
use crate::rng::Rng;
use crate::trees::Forest;
use crate::util::{hash_str, slope};
use ivp::prelude::*;
use serde_json::json;

pub fn dense_order(m: Method) -> usize {
    match m {
        Method::RK4 | Method::RK23 | Method::RADAU => 3,
        Method::DOPRI5 => 4,
        Method::DOP853 => 7,
        Method::BDF => 1,
    }
}

pub fn run(ctx: &Ctx) -> (Report, Meta) {
    let res_tol = 2e-13;
    let meta = Meta::new(
        "(O1) RK4, RK23, DOPRI5, DOP853: the continuous weights b_j(theta) of the interpolant handed to SolOut are extracted (8 extraction variants: first/later steps, both signs of h, x0 != 0, clipped final steps) at theta in {0, 1/64, ..., 1} plus 50 random theta and checked against ALL continuous order conditions sum_j b_j(theta) Phi_j(t) = theta^rho(t)/gamma(t) for trees of order <= q (q = 3, 3, 4, 7; 85 trees for DOP853), with non-vacuity at order q+1; (O2) one Radau step on y' = lambda y and 2x2 rotation-decay systems: interpolant vs the cubic through (0,y0) and the three collocation values computed from the exact Radau IIA matrix; (O3) sup over 33 theta of the interpolation error of one step from exact data on closed-form nonlinear problems, slope over h (median over problems, both signs of h), and for BDF whole runs: interior error <= K x max(neighbouring endpoint errors, tolerance scale); non-trivial = (method, variant/tree/theta or problem) obligation evaluated (distinct by hash)",
    )
    .assume("continuous order conditions (Hairer-Norsett-Wanner II.6): the interpolant has uniform order q iff they hold for all trees of order <= q")
    .thresholds(json!({"continuous_condition_residual": res_tol, "collocation_rel": 1e-11, "interior_slope_margin": 0.6, "bdf_interior_factor_K": 5}))
    .floor("continuous_conditions_checked", 20000)
    .floor("dense_variants_extracted", 20)
    .floor("radau_collocation_points_checked", 300)
    .floor("interior_slopes_fitted", 20)
    .floor("bdf_steps_checked", 500);
    let mut rep = Report::new("C07");
    let forest = Forest::new(9);
    let mut rng0 = Rng::derive(ctx.seed, 7, 0);
    let mut thetas: Vec<f64> = (0..=64).map(|k| k as f64 / 64.0).collect();
    for _ in 0..50 {
        thetas.push(rng0.f());
    }

    // ------------------------------------------------------------------ O1
    for &m in EXPLICIT.iter() {
        let q = dense_order(m);
        let mname_ = mname(m);
        // every variant with dense output on; for RK4, RK23 and DOPRI5 five more with dense output off and an interpolant
        // asked for on demand (XOut at the initial callback, due in the extracted step): the weights must be the same
        let mut vlist: Vec<(f64, f64, usize, Option<f64>, bool)> = variants().iter().map(|&(a, b, c, d)| (a, b, c, d, false)).collect();
        if m != Method::DOP853 {
            // (forward only: going backward the solvers' test `xo <= x` hands interpolants over before xo is reached and none after —
            // XOut is undocumented and no property states when an interpolant is due, so nothing is demanded there)
            for &(a, b, c, d) in &[(0.0, 1.0, 1usize, None), (0.0, 1.0, 2, None), (3.0, 0.5, 2, None), (3.0, 0.5, 3, None), (-1.0, 0.25, 4, None)] {
                vlist.push((a, b, c, d, true));
            }
        }
        for (vi, &(x0, h, step, clip, on_demand)) in vlist.iter().enumerate() {
            let case_id = format!("dense_extract/{}/{}", mname_, vi);
            if !ctx.want(&case_id) {
                continue;
            }
            let vdesc = json!({"method": mname_, "x0": x0, "h": h, "step_index": step, "clipped_to": clip, "interpolant_on_demand": on_demand});
            let cls = format!("{}{}{}", if step > 1 { "later_step" } else { "first_step" }, if h < 0.0 { "_backward" } else { "" }, if clip.is_some() { "_clipped" } else { "" }) + if on_demand { "_on_demand" } else { "" };
            rep.eval();
            if on_demand {
                rep.count("dense_variants_on_demand", 1);
            }
            let t = match std::panic::catch_unwind(|| extract_full(m, x0, h, step, clip, &thetas, false, on_demand)) {
                Ok(Ok(t)) => t,
                Ok(Err(e)) => {
                    rep.violate(&format!("C07/dense_extraction/{}/{}", mname_, cls), e, &case_id, vdesc);
                    continue;
                }
                Err(pn) => {
                    rep.violate(&format!("C07/no_panic/{}/{}", mname_, cls), crate::probe::panic_message(&pn), &case_id, vdesc);
                    continue;
                }
            };
            if t.bt.len() != thetas.len() {
                rep.violate(&format!("C07/dense_extraction/{}/{}", mname_, cls), "no interpolant was handed to the callback".into(), &case_id, vdesc);
                continue;
            }
            rep.count("dense_variants_extracted", 1);
            rep.nontrivial(hash_str(&case_id));
            // every stage (the dense-output stages included) must be evaluated at x + c_i h with c_i = sum_j a_ij
            for i in 0..t.s {
                let rs: f64 = t.a[i].iter().sum();
                if (rs - t.c[i]).abs() > 1e-14 * (1.0 + t.a[i].iter().map(|v| v.abs()).sum::<f64>()) {
                    rep.violate(&format!("C07/stage_time_consistent/{}/{}", mname_, cls), format!("stage {}: sum_j a_ij = {:e} but it is evaluated at x + {:e} h", i, rs, t.c[i]), &case_id, vdesc.clone());
                }
            }
            let phi = forest.weights(&t.a);
            let mut worst: f64 = 0.0;
            let mut failed = false;
            'outer: for (k, &th) in thetas.iter().enumerate() {
                for ord in 1..=q {
                    for &tid in &forest.by_order[ord] {
                        let lhs: f64 = (0..t.s).map(|i| t.bt[k][i] * phi[tid][i]).sum();
                        let cond: f64 = (0..t.s).map(|i| (t.bt[k][i] * phi[tid][i]).abs()).sum::<f64>().max(1.0);
                        let rhs = th.powi(ord as i32) / forest.trees[tid].gamma;
                        let r = (lhs - rhs).abs() / cond;
                        worst = worst.max(r);
                        rep.count("continuous_conditions_checked", 1);
                        if r > res_tol {
                            rep.violate(
                                &format!("C07/continuous_order_condition/{}/{}_order{}", mname_, cls, ord),
                                format!("theta = {}: tree {} of order {}: sum b_j(theta) Phi_j = {:e}, theta^rho/gamma = {:e} (residual {:e})", th, forest.describe(tid), ord, lhs, rhs, r),
                                &case_id,
                                vdesc.clone(),
                            );
                            failed = true;
                            break 'outer;
                        }
                    }
                }
            }
            rep.worst(&format!("continuous_condition_residual_{}", mname_), worst);
            if !failed {
                // non-vacuity at order q+1 (at theta = 1/2)
                let k = 32;
                let mut maxnext: f64 = 0.0;
                for &tid in &forest.by_order[q + 1] {
                    let lhs: f64 = (0..t.s).map(|i| t.bt[k][i] * phi[tid][i]).sum();
                    maxnext = maxnext.max((lhs - 0.5f64.powi(q as i32 + 1) / forest.trees[tid].gamma).abs());
                }
                if maxnext < 1e-7 {
                    rep.violate(&format!("C07/oracle_vacuous/{}/{}", mname_, cls), format!("all continuous conditions of order {} hold too (max residual {:e})", q + 1, maxnext), &case_id, vdesc.clone());
                }
                if vi == 0 {
                    rep.sample(json!({"method": mname_, "dense_order_q": q, "b_theta_half": t.bt[32], "worst_residual": worst, "residual_at_order_q_plus_1": maxnext}));
                }
            }
        }
    }

    // ------------------------------------------------------------------ O2 Radau collocation polynomial
    {
        let s6 = 6.0f64.sqrt();
        let c = [(4.0 - s6) / 10.0, (4.0 + s6) / 10.0, 1.0];
        let a = [
            [(88.0 - 7.0 * s6) / 360.0, (296.0 - 169.0 * s6) / 1800.0, (-2.0 + 3.0 * s6) / 225.0],
            [(296.0 + 169.0 * s6) / 1800.0, (88.0 + 7.0 * s6) / 360.0, (-2.0 - 3.0 * s6) / 225.0],
            [(16.0 - s6) / 36.0, (16.0 + s6) / 36.0, 1.0 / 9.0],
        ];
        // complex 3x3 solve (I - zA) Z = zA 1 y0 for scalar complex y0
        type C = (f64, f64);
        let cmul = |p: C, q: C| (p.0 * q.0 - p.1 * q.1, p.0 * q.1 + p.1 * q.0);
        let cdiv = |p: C, q: C| {
            let d = q.0 * q.0 + q.1 * q.1;
            ((p.0 * q.0 + p.1 * q.1) / d, (p.1 * q.0 - p.0 * q.1) / d)
        };
        let stage_values = |z: C, y0: C| -> [C; 3] {
            let mut mtx = [[(0.0, 0.0); 4]; 3];
            for i in 0..3 {
                let mut rhs = (0.0, 0.0);
                for j in 0..3 {
                    let za = cmul(z, (a[i][j], 0.0));
                    mtx[i][j] = (if i == j { 1.0 } else { 0.0 } - za.0, -za.1);
                    rhs = (rhs.0 + za.0, rhs.1 + za.1);
                }
                mtx[i][3] = cmul(rhs, y0);
            }
            // Gaussian elimination with partial pivoting (modulus)
            for k in 0..3 {
                let mut p = k;
                for i in k + 1..3 {
                    if mtx[i][k].0.hypot(mtx[i][k].1) > mtx[p][k].0.hypot(mtx[p][k].1) {
                        p = i;
                    }
                }
                mtx.swap(k, p);
                for i in k + 1..3 {
                    let f = cdiv(mtx[i][k], mtx[k][k]);
                    for j in k..4 {
                        let t = cmul(f, mtx[k][j]);
                        mtx[i][j] = (mtx[i][j].0 - t.0, mtx[i][j].1 - t.1);
                    }
                }
            }
            let mut zsol = [(0.0, 0.0); 3];
            for i in (0..3).rev() {
                let mut s = mtx[i][3];
                for j in i + 1..3 {
                    let t = cmul(mtx[i][j], zsol[j]);
                    s = (s.0 - t.0, s.1 - t.1);
                }
                zsol[i] = cdiv(s, mtx[i][i]);
            }
            [(y0.0 + zsol[0].0, y0.1 + zsol[0].1), (y0.0 + zsol[1].0, y0.1 + zsol[1].1), (y0.0 + zsol[2].0, y0.1 + zsol[2].1)]
        };
        let mut zs: Vec<(f64, f64)> = vec![(-0.5, 0.0), (-0.9, 0.6), (0.125, -0.25), (-20.0, 0.0), (0.0, 2.0), (0.5, 0.0), (-3.0, 4.0), (-200.0, 3.0)];
        for _ in 0..ctx.size(24, 2_000) {
            zs.push((-rng0.logu(1e-2, 1e2) * if rng0.chance(0.85) { 1.0 } else { -0.02 }, rng0.range(-5.0, 5.0)));
        }
        let th: Vec<f64> = (0..=16).map(|k| k as f64 / 16.0).collect();
        for (zi_, &(zr, zi)) in zs.iter().enumerate() {
            for &h in &[1.0, -0.5] {
                let case_id = format!("collocation/{}/{}", zi_, h);
                if !ctx.want(&case_id) {
                    continue;
                }
                let (la, lb) = (zr / h, zi / h);
                let prob = Composite::new(vec![Base::Rot { a: la, w: lb, u0: [0.8, -0.3] }], Warp::Id, None, 0.0);
                let mut probe = Probe::new(&prob, 0.0);
                probe.user_jac = true;
                let lo = LowOpts { first_step: Some(h), dense: true, newton_tol: Some(1e-18), newton_maxiter: Some(50), ..Default::default() };
                let mut so = RecSolOut::new(Some(&probe));
                so.thetas = th.clone();
                let out = run_low_guarded(Method::RADAU, &probe, 0.0, &[0.8, -0.3], h, &Tol::S(1e-6), &Tol::S(1e3), &lo, &mut so);
                rep.eval();
                let case = json!({"z": [zr, zi], "h": h});
                match out {
                    LowOutcome::Ok(_) if so.cbs.len() == 2 && so.cbs[1].has_interp => {
                        let y0 = (0.8, -0.3);
                        let yv = stage_values((zr, zi), y0);
                        // cubic through (0,y0),(c1,Y1),(c2,Y2),(1,Y3)
                        let nodes = [0.0, c[0], c[1], 1.0];
                        let vals = [y0, yv[0], yv[1], yv[2]];
                        let zabs = zr.hypot(zi).max(1.0);
                        for (k, &t) in th.iter().enumerate() {
                            let mut w = (0.0, 0.0);
                            for i in 0..4 {
                                let mut l = 1.0;
                                for j in 0..4 {
                                    if i != j {
                                        l *= (t - nodes[j]) / (nodes[i] - nodes[j]);
                                    }
                                }
                                w = (w.0 + l * vals[i].0, w.1 + l * vals[i].1);
                            }
                            let got = (so.cbs[1].interp[k][0], so.cbs[1].interp[k][1]);
                            let scale = vals.iter().fold(1.0f64, |mx, v| mx.max(v.0.hypot(v.1)));
                            let e = (got.0 - w.0).abs().max((got.1 - w.1).abs()) / (scale * zabs);
                            rep.count("radau_collocation_points_checked", 1);
                            rep.worst("radau_interpolant_vs_collocation_polynomial", e);
                            if e > 1e-11 {
                                rep.violate("C07/radau_collocation_polynomial/RADAU/linear", format!("theta = {}: interpolant ({:e},{:e}) vs collocation cubic ({:e},{:e}) for z = {}+{}i", t, got.0, got.1, w.0, w.1, zr, zi), &case_id, case.clone());
                                break;
                            }
                        }
                        rep.nontrivial(hash_str(&case_id));
                    }
                    LowOutcome::Panic(msg) => rep.violate("C07/no_panic/RADAU/collocation", msg, &case_id, case),
                    _ => rep.inconclusive("radau_single_step_failed"),
                }
            }
        }
    }

    // ------------------------------------------------------------------ O3 empirical interior error
    let nprob = ctx.size(16, 600);
    let th33: Vec<f64> = (0..=32).map(|k| k as f64 / 32.0).collect();
    for &m in [Method::RK4, Method::RK23, Method::DOPRI5, Method::DOP853, Method::RADAU].iter() {
        let mname_ = mname(m);
        let q = dense_order(m);
        let mut slopes: Vec<f64> = Vec::new();
        for pi in 0..nprob {
            for &sgn in &[1.0, -1.0] {
                let case_id = format!("interior/{}/{}/{}", mname_, pi, sgn);
                if !ctx.want(&case_id) {
                    continue;
                }
                let mut rng = Rng::derive(ctx.seed, 77, (pi * 2 + if sgn > 0.0 { 0 } else { 1 }) as u64);
                let bases = match pi % 4 {
                    0 => vec![Base::Tan { u0: rng.range(0.2, 0.6) }],
                    1 => vec![Base::Logistic { r: rng.range(1.5, 2.5), k: 2.0, u0: rng.range(0.3, 0.8) }, Base::Tanh { a: 1.5, u0: rng.range(-0.6, 0.6) }],
                    2 => vec![Base::Bern { a: 1.5, b: 0.8, u0: rng.range(0.3, 0.8) }],
                    _ => vec![Base::Tanh { a: 1.6, u0: rng.range(-0.5, 0.5) }, Base::Tan { u0: rng.range(-0.3, 0.3) }],
                };
                let warp = if pi % 2 == 0 { Warp::Sin { a: 0.3, b: 1.3 } } else { Warp::Id };
                let nn: usize = bases.iter().map(|b| b.dim()).sum();
                let mix = if nn >= 2 { Some(Mix::random(nn, &mut rng)) } else { None };
                let x0 = rng.range(-0.3, 0.3);
                let prob = Composite::new(bases, warp, mix, x0);
                let hs: Vec<f64> = match m {
                    Method::DOP853 => vec![0.6, 0.5, 0.4, 0.3, 0.25, 0.2],
                    _ => vec![0.4, 0.28, 0.2, 0.14, 0.1, 0.07, 0.05, 0.035, 0.025],
                };
                let mut lh = Vec::new();
                let mut le = Vec::new();
                for &h0 in &hs {
                    let h = sgn * h0;
                    if !prob.regular(x0 + h) {
                        continue;
                    }
                    let probe = {
                        let mut pr = Probe::new(&prob, x0);
                        pr.user_jac = true;
                        pr
                    };
                    let (rt, at, lo) = if m == Method::RADAU {
                        (Tol::S(1e-6), Tol::S(1e3), LowOpts { first_step: Some(h), dense: true, newton_tol: Some(1e-18), newton_maxiter: Some(50), ..Default::default() })
                    } else {
                        (Tol::S(0.0), Tol::S(1e300), LowOpts { first_step: Some(h), dense: true, ..Default::default() })
                    };
                    let mut so = RecSolOut::new(Some(&probe));
                    so.thetas = th33.clone();
                    let y0 = prob.exact(x0).unwrap();
                    let out = run_low_guarded(m, &probe, x0, &y0, x0 + h, &rt, &at, &lo, &mut so);
                    rep.eval();
                    if let LowOutcome::Ok(_) = out {
                        if so.cbs.len() == 2 && so.cbs[1].has_interp {
                            let mut e: f64 = 0.0;
                            let mut scale: f64 = 1.0;
                            for (k, &t) in th33.iter().enumerate() {
                                let ex = prob.exact(x0 + t * h).unwrap();
                                for j in 0..ex.len() {
                                    e = e.max((so.cbs[1].interp[k][j] - ex[j]).abs());
                                    scale = scale.max(ex[j].abs());
                                }
                            }
                            if e > 1e-11 * scale {
                                lh.push(h0.ln());
                                le.push(e.ln());
                            }
                        }
                    }
                }
                if lh.len() >= 3 {
                    let k0 = lh.len().saturating_sub(4);
                    let s = slope(&lh[k0..], &le[k0..]);
                    slopes.push(s);
                    rep.count("interior_slopes_fitted", 1);
                    rep.nontrivial(hash_str(&case_id));
                } else {
                    rep.inconclusive("interior_too_few_points_above_rounding");
                }
            }
        }
        if ctx.only.is_none() && slopes.len() >= 4 {
            slopes.sort_by(|a, b| a.partial_cmp(b).unwrap());
            let med = slopes[slopes.len() / 2];
            let lowq = slopes[slopes.len() / 5];
            rep.worst(&format!("median_interior_slope_deficit_{}", mname_), (q as f64 + 1.0) - med);
            rep.worst(&format!("lower_quintile_interior_slope_deficit_{}", mname_), (q as f64 + 1.0) - lowq);
            if med < q as f64 + 1.0 - 0.6 {
                rep.violate(
                    &format!("C07/interior_error_order/{}/median", mname_),
                    format!("the interpolation error inside a step from exact data scales like h^{:.2} (median over {} problems); order q = {} requires h^{}", med, slopes.len(), q, q + 1),
                    &format!("interior/{}/median", mname_),
                    json!({"method": mname_, "slopes": slopes}),
                );
            }
        }
    }

    // ------------------------------------------------------------------ BDF: interior vs endpoint accuracy on whole runs
    let nb = ctx.size(1_600, 40_000);
    for i in 0..nb {
        let case_id = format!("bdf/{}", i);
        if !ctx.want(&case_id) {
            continue;
        }
        let mut rng = Rng::derive(ctx.seed, 777, i as u64);
        let dirn = rng.sign();
        let x0 = rng.range(-1.0, 1.0);
        let xend = x0 + dirn * rng.range(0.5, 5.0);
        let (prob, _amp) = random_composite(&mut rng, x0, xend, 3, 10.0);
        let mut scn = Scn::new(Method::BDF, x0, xend, prob.y0());
        let rt = rng.logu(1e-8, 1e-3);
        scn.rtol = Tol::S(rt);
        scn.atol = Tol::S(rt * rng.logu(1e-3, 1.0));
        scn.dense = true;
        scn.user_jac = rng.bool();
        let res = run_solve(&prob, &scn, false, false);
        rep.eval();
        let case = scn.describe(&prob);
        let Outcome::Ok(sol) = &res.out else {
            if let Outcome::Panic(msg) = &res.out {
                rep.violate("C07/no_panic/BDF/whole_run", msg.clone(), &case_id, case);
            }
            continue;
        };
        if sol.status != Status::Success || sol.t.len() < 4 {
            rep.inconclusive("bdf_run_unusable");
            continue;
        }
        rep.nontrivial(hash_str(&case_id));
        let n = scn.y0.len();
        // one tolerance scale per component for the whole run (local scales spike at zero crossings)
        let scl: Vec<f64> = (0..n).map(|j| scn.atol.at(j) + scn.rtol.at(j) * sol.y.iter().fold(0.0f64, |mx, v| mx.max(v[j].abs()))).collect();
        let errs: Vec<f64> = (0..sol.t.len())
            .map(|k| {
                let ex = prob.exact(sol.t[k]).unwrap();
                (0..n).fold(0.0f64, |mx, j| mx.max((sol.y[k][j] - ex[j]).abs() / scl[j]))
            })
            .collect();
        for k in 0..sol.t.len() - 1 {
            let mut worst: f64 = 0.0;
            for &th in &[0.25, 0.5, 0.75] {
                let t = sol.t[k] + th * (sol.t[k + 1] - sol.t[k]);
                if let Ok(v) = sol.sol(t) {
                    let ex = prob.exact(t).unwrap();
                    for j in 0..n {
                        worst = worst.max((v[j] - ex[j]).abs() / scl[j]);
                    }
                }
            }
            let reference = errs[k].max(errs[k + 1]).max(1.0);
            rep.count("bdf_steps_checked", 1);
            rep.worst("bdf_interior_over_endpoint_error", worst / reference);
            if worst > 5.0 * reference {
                rep.violate(
                    "C07/bdf_interior_accuracy/BDF/whole_run",
                    format!("step {} of {} [{:e},{:e}] (h = {:e}, previous h = {:e}): interior error is {:.1} tolerance units but the neighbouring endpoint errors are {:.2} and {:.2}; errors of all samples: {:?}", k, sol.t.len() - 1, sol.t[k], sol.t[k + 1], sol.t[k + 1] - sol.t[k], if k > 0 { sol.t[k] - sol.t[k - 1] } else { 0.0 }, worst, errs[k], errs[k + 1], errs.iter().map(|e| (e * 10.0).round() / 10.0).collect::<Vec<_>>()),
                    &case_id,
                    case.clone(),
                );
                break;
            }
        }
    }
    (rep, meta)
}
