use crate::ctx::{Ctx, Meta};
use crate::report::Report;
pub fn run(ctx: &Ctx, _c09: bool) -> (Report, Meta) {
    (Report::new(&ctx.prop), Meta::new("not built yet"))
}
