//! C08 — reported events are genuine, direction-filtered, ordered and consistent.
//! C09 — no sign change between accepted steps goes unreported (same workload machinery,
//! different oracle and root placement).

use super::common::*;
use crate::ctx::{Ctx, Meta};
use crate::probe::*;
use crate::problems::Problem;
use crate::report::Report;
use crate::rng::Rng;
use crate::util::{next_down, next_up, par_for, EPS};
use ivp::prelude::*;
use serde_json::json;

fn dir_ok(g0: f64, g1: f64, dir: i32) -> bool {
    // weak crossing in integration order
    match dir {
        0 => (g0 <= 0.0 && g1 >= 0.0) || (g0 >= 0.0 && g1 <= 0.0),
        1 => g0 <= 0.0 && g1 >= 0.0,
        _ => g0 >= 0.0 && g1 <= 0.0,
    }
}
fn strict_cross(g0: f64, g1: f64, dir: i32) -> bool {
    match dir {
        0 => (g0 < 0.0 && g1 > 0.0) || (g0 > 0.0 && g1 < 0.0),
        1 => g0 < 0.0 && g1 > 0.0,
        _ => g0 > 0.0 && g1 < 0.0,
    }
}
fn delta(t: f64) -> f64 {
    4e-12 + 8.0 * EPS * t.abs()
}

fn kind_name(e: &EvSpec) -> &'static str {
    match e.kind {
        EvKind::Time { .. } => "time",
        EvKind::Comp { .. } => "component",
        EvKind::Lin { .. } => "linear",
        EvKind::Prod { .. } => "product",
        EvKind::TwoRoots { .. } => "two_roots",
        EvKind::Sq { .. } => "square",
    }
}

pub fn run(ctx: &Ctx, c09: bool) -> (Report, Meta) {
    let prop = if c09 { "C09" } else { "C08" };
    let meta = if c09 {
        Meta::new(
            "bounded problems x 6 methods x both directions x tolerances; event functions t - c, y_k - c, linear forms with thresholds placed from a pilot run's accepted-step grid (mid-step, boundary +-{1e-13,1e-12,1e-9} relative, several functions firing in one step) and random ones, three direction filters; one run in four makes one of the functions terminal (count 1 or 2, any list position) so that the last interval is cut by the stop; oracle: sign pattern of g over consecutive reported points decides how many events each step must contain; single known roots (t - c) must be found exactly once at c; non-trivial = run with >= 1 located event (distinct by scenario hash)",
        )
        .assume("an exact zero of g at a step endpoint makes the adjacent intervals inconclusive for that function (the property allows either)")
        .floor("intervals_with_strict_sign_change", 1000)
        .floor("intervals_with_same_sign", 20000)
        .floor("known_root_cases", 300)
        .floor("steps_with_two_or_more_functions_firing", 30)
    } else {
        Meta::new(
            "bounded problems x 6 methods (DOP853 / long steps / nonlinear g over-weighted) x both directions x tolerances x 1..4 simultaneous event functions of 6 kinds (t - c, y_k - c, linear, product y_i y_j - c, two close roots, y_k^2 - c) x three direction filters, dense_output on; every reported event is checked: inside the integrated span and inside a step whose endpoint values show a crossing of the configured direction, y_e equal to sol(t_e) to rounding, g(t_e, y_e) zero to root-finder accuracy (|g| <= 1e-11(1+scale) or a sign bracket of g(sol(.)) within 4e-12 + 8 eps |t|), per-function ordering, shapes; non-trivial = run with >= 1 located event (distinct by scenario hash)",
        )
        .assume("event functions are harness-owned, so g can be recomputed on the run's own continuous solution")
        .floor("events_checked", 3000)
        .floor("events_checked_DOP853", 300)
        .floor("runs_with_events", 800)
        .floor("endpoint_root_cases", 300)
    }
    .thresholds(json!({"root_abs_rel": 1e-11, "bracket_delta": "4e-12 + 8 eps |t|", "state_rounding_factor": 64}));

    let n = ctx.size(120_000, 6_000_000);
    let g = GenOpts { stiff_for_implicit: true, allow_max_step: true, bidirectional_problems: true, max_span: 40.0, ..Default::default() };
    let rep = par_for(n, prop, |i, rep| {
        let case_id = format!("case/{}", i);
        if !ctx.want(&case_id) {
            return;
        }
        let mut rng = Rng::derive(ctx.seed, if c09 { 9 } else { 8 }, i as u64);
        let (prob, mut scn) = gen_case(&mut rng, &g);
        if !c09 && i % 3 == 0 {
            // over-weight the configuration in which a faulty root search escapes its bracket
            scn.method = Method::DOP853;
            scn.rtol = Tol::S(rng.logu(1e-6, 1e-3));
            scn.atol = Tol::S(scn.rtol.at(0) * 1e-2);
            scn.max_step = if rng.bool() { Some(f64::INFINITY) } else { None };
            scn.user_jac = false;
        }
        scn.t_eval = None;
        scn.first_step = if scn.method == Method::RK4 { Some(scn.dir() * (scn.xend - scn.x0).abs() / rng.range(40.0, 300.0)) } else { None };
        scn.max_steps = None;
        scn.dense = true;
        let m = mname(scn.method);
        let nst = scn.y0.len();
        let dirn = scn.dir();
        // events
        scn.events.clear();
        let mut known_root: Option<(usize, f64)> = None;
        if c09 {
            let Some(grid) = pilot_grid(&prob, &scn) else {
                rep.inconclusive("pilot_run_unusable");
                return;
            };
            let ng = grid.len();
            let nev = 1 + rng.below(4);
            // a step in which several functions fire
            let kshared = rng.below(ng - 1);
            for e in 0..nev {
                let k = if e > 0 && rng.chance(0.5) { kshared } else { rng.below(ng - 1) };
                let (a, b) = (grid[k], grid[k + 1]);
                let c = match rng.below(6) {
                    0 | 1 => a + (b - a) * rng.range(0.05, 0.95),
                    2 => b + dirn * 1e-13 * (1.0 + b.abs()) * rng.sign(),
                    3 => b + dirn * 1e-12 * (1.0 + b.abs()) * rng.sign(),
                    4 => b + dirn * 1e-9 * (1.0 + b.abs()) * rng.sign(),
                    _ => a + (b - a) * rng.range(0.45, 0.55),
                };
                let inside = (c - scn.x0) * dirn > 0.0 && (c - scn.xend) * dirn < 0.0 && grid.iter().all(|&g| g != c);
                let d = rng.int(-1, 1) as i32;
                if rng.chance(0.6) && inside {
                    scn.events.push(EvSpec { kind: EvKind::Time { c }, dir: d, terminal: None });
                    if known_root.is_none() {
                        known_root = Some((scn.events.len() - 1, c));
                    }
                } else {
                    scn.events.push(random_event(&mut rng, nst, scn.x0, scn.xend));
                }
            }
            if i % 4 == 2 && !scn.events.is_empty() {
                // one of the functions is terminal (after its first or second occurrence): the run then ends inside a step,
                // and the sign changes of the OTHER functions between the last accepted endpoint and the stopping point
                // must still be reported (whatever the position of the terminal function in the list)
                let j = rng.below(scn.events.len());
                scn.events[j].terminal = Some(1 + rng.below(2));
            }
        } else {
            let nev = 1 + rng.below(4);
            for _ in 0..nev {
                let mut e = random_event(&mut rng, nst, scn.x0, scn.xend);
                if i % 3 == 0 && nst >= 2 && rng.chance(0.6) {
                    e.kind = EvKind::Prod { i: 0, j: 1, c: rng.range(-0.4, 0.4) };
                }
                scn.events.push(e);
            }
            if i % 4 == 1 {
                // roots exactly on (or a hair beside) an accepted step endpoint, taken from a pilot run
                let mut ps = scn.clone();
                ps.events.clear();
                ps.dense = false;
                if let Outcome::Ok(psol) = run_solve(&prob, &ps, false, false).out {
                    if psol.t.len() >= 3 {
                        let k = 1 + rng.below(psol.t.len() - 2);
                        let tk = psol.t[k];
                        let ev = match rng.below(4) {
                            0 => EvKind::Time { c: tk },
                            1 => EvKind::Time { c: tk + 1e-12 * rng.sign() },
                            2 => {
                                let j = rng.below(nst);
                                EvKind::Comp { k: j, c: psol.y[k][j] }
                            }
                            _ => {
                                let j = rng.below(nst);
                                EvKind::Comp { k: j, c: psol.y[k][j] * (1.0 + 4.0 * EPS) }
                            }
                        };
                        scn.events.push(EvSpec { kind: ev, dir: 0, terminal: None });
                        rep.count("endpoint_root_cases", 1);
                    }
                }
            }
        }
        let res = run_solve(&prob, &scn, false, false);
        rep.eval();
        let case = scn.describe(&prob);
        let sol = match &res.out {
            Outcome::Ok(s) => s,
            Outcome::Budget => {
                rep.inconclusive("evaluation_budget_exhausted");
                return;
            }
            Outcome::Err(_) => {
                rep.count("config_errors_returned", 1);
                return;
            }
            Outcome::Panic(msg) => {
                rep.violate(&format!("{}/no_panic/{}/events", prop, m), format!("panic: {}", msg), &case_id, case);
                return;
            }
        };
        if sol.t.len() < 2 {
            rep.inconclusive("fewer_than_two_samples");
            return;
        }
        let ne = scn.events.len();
        // shapes (both properties rely on them)
        if sol.t_events.len() != ne || sol.y_events.len() != ne {
            rep.violate(&format!("{}/shapes/{}/outer_length", prop, m), format!("{} event functions but t_events has {} and y_events {} entries", ne, sol.t_events.len(), sol.y_events.len()), &case_id, case);
            return;
        }
        for e in 0..ne {
            if sol.t_events[e].len() != sol.y_events[e].len() || sol.y_events[e].iter().any(|v| v.len() != nst) {
                rep.violate(&format!("{}/shapes/{}/inner_length", prop, m), format!("event {}: {} times, {} states (dimension {})", e, sol.t_events[e].len(), sol.y_events[e].len(), nst), &case_id, case);
                return;
            }
        }
        let total_events: usize = sol.t_events.iter().map(|v| v.len()).sum();
        if total_events > 0 {
            rep.nontrivial(scn_hash(&scn, &prob));
            rep.count("runs_with_events", 1);
        }
        let t = &sol.t;
        let gvals: Vec<Vec<f64>> = scn.events.iter().map(|e| (0..t.len()).map(|k| e.g(t[k], &sol.y[k])).collect()).collect();
        let (lo, hi) = (t[0].min(*t.last().unwrap()), t[0].max(*t.last().unwrap()));

        if !c09 {
            // ------------------------------ C08 ------------------------------
            for e in 0..ne {
                let ev = &scn.events[e];
                let kn = kind_name(ev);
                let mut prev_te: Option<f64> = None;
                for (j, &te) in sol.t_events[e].iter().enumerate() {
                    let ye = &sol.y_events[e][j];
                    rep.count("events_checked", 1);
                    rep.count(&format!("events_checked_{}", m), 1);
                    let mut c2 = case.clone();
                    c2["event"] = json!({"function": e, "index": j, "t_e": te, "y_e": ye});
                    // inside the integrated span
                    if !(te >= lo && te <= hi) {
                        rep.violate(&format!("C08/event_outside_span/{}/{}", m, kn), format!("event of function {} at t = {:e} outside the integrated span [{:e}, {:e}]", e, te, lo, hi), &case_id, c2);
                        continue;
                    }
                    // ordering
                    if let Some(p) = prev_te {
                        if (te - p) * dirn < 0.0 {
                            rep.violate(&format!("C08/event_order/{}/{}", m, kn), format!("events of function {} not in integration order: {:e} after {:e}", e, te, p), &case_id, c2.clone());
                        }
                    }
                    prev_te = Some(te);
                    // bracketing step(s) with a crossing of the configured direction
                    let mut found = false;
                    let mut hstep = 0.0;
                    for k in 0..t.len() - 1 {
                        let (a, b) = (t[k].min(t[k + 1]), t[k].max(t[k + 1]));
                        if te >= a && te <= b {
                            hstep = b - a;
                            if dir_ok(gvals[e][k], gvals[e][k + 1], ev.dir) {
                                found = true;
                                break;
                            }
                        }
                    }
                    if !found {
                        rep.violate(
                            &format!("C08/event_inside_step/{}/{}", m, kn),
                            format!("event of function {} at t = {:e}: the accepted step containing it shows no crossing with direction {} at its endpoints", e, te, ev.dir),
                            &case_id,
                            c2.clone(),
                        );
                        continue;
                    }
                    // y_e equals the continuous solution
                    match sol.sol(te) {
                        Ok(w) => {
                            let mut f = vec![0.0; nst];
                            prob.f(te, &w, &mut f);
                            for q in 0..nst {
                                let den = 64.0 * EPS * (w[q].abs() + (hstep + te.abs()) * f[q].abs()) + 1e-11 * f[q].abs();
                                let d = (ye[q] - w[q]).abs();
                                if den > 0.0 {
                                    rep.worst("event_state_vs_sol_ratio", d / den);
                                }
                                if d > den {
                                    rep.violate(&format!("C08/event_state_is_solution/{}/{}", m, kn), format!("y_e[{}] = {:e} but sol(t_e)[{}] = {:e} (t_e = {:e})", q, ye[q], q, w[q], te), &case_id, c2.clone());
                                    break;
                                }
                            }
                        }
                        Err(er) => {
                            rep.violate(&format!("C08/event_state_is_solution/{}/{}", m, kn), format!("sol(t_e = {:e}) failed: {:?}", te, er), &case_id, c2.clone());
                            continue;
                        }
                    }
                    // root quality
                    let gscale = gvals[e].iter().fold(0.0f64, |mx, v| mx.max(v.abs()));
                    let ge = ev.g(te, ye);
                    let small = ge.abs() <= 1e-11 * (1.0 + gscale);
                    let mut bracket = false;
                    if !small {
                        let d = delta(te);
                        let (ta, tb) = ((te - d).max(lo), (te + d).min(hi));
                        if let (Ok(wa), Ok(wb)) = (sol.sol(ta), sol.sol(tb)) {
                            let (ga, gb) = (ev.g(ta, &wa), ev.g(tb, &wb));
                            bracket = (ga <= 0.0 && gb >= 0.0) || (ga >= 0.0 && gb <= 0.0);
                        }
                    }
                    rep.worst("abs_g_at_event_over_scale", ge.abs() / (1.0 + gscale));
                    if !small && !bracket {
                        rep.violate(&format!("C08/event_is_root/{}/{}", m, kn), format!("g_{}(t_e, y_e) = {:e} at t_e = {:e} and no sign bracket within {:e}", e, ge, te, delta(te)), &case_id, c2.clone());
                    }
                }
            }
        } else {
            // ------------------------------ C09 ------------------------------
            for k in 0..t.len() - 1 {
                let mut firing = 0;
                for e in 0..ne {
                    let ev = &scn.events[e];
                    let kn = kind_name(ev);
                    let (g0, g1) = (gvals[e][k], gvals[e][k + 1]);
                    if g0 == 0.0 || g1 == 0.0 {
                        rep.inconclusive("exact_zero_at_step_endpoint");
                        continue;
                    }
                    let stopped_here = sol.status == Status::UserInterrupt && k + 2 == t.len();
                    if stopped_here && ev.terminal.is_some() {
                        // the stopping point is this function's own root: the sign of g there is rounding noise
                        rep.inconclusive("terminal_root_is_the_endpoint");
                        continue;
                    }
                    if stopped_here {
                        rep.count("other_functions_judged_on_the_interval_cut_by_a_terminal_event", 1);
                        // a root of this function within root-finder accuracy of the stopping point may legitimately be
                        // located just beyond it (and then not be reported): judge only crossings clearly before the stop
                        let tq = t[k + 1] - dirn * 4.0 * delta(t[k + 1]);
                        if (tq - t[k]) * dirn <= 0.0 {
                            rep.inconclusive("interval_cut_by_terminal_event_below_root_accuracy");
                            continue;
                        }
                        match sol.sol(tq) {
                            Ok(wq) => {
                                let gq = ev.g(tq, &wq);
                                if !(gq != 0.0 && gq.signum() == g1.signum()) {
                                    rep.inconclusive("crossing_within_root_accuracy_of_the_terminal_stop");
                                    continue;
                                }
                            }
                            Err(_) => {
                                rep.inconclusive("dense_solution_unavailable_before_terminal_stop");
                                continue;
                            }
                        }
                    }
                    let (a, b) = (t[k].min(t[k + 1]), t[k].max(t[k + 1]));
                    let closed = sol.t_events[e].iter().filter(|&&te| te >= a && te <= b).count();
                    let open = sol.t_events[e].iter().filter(|&&te| te > a && te < b).count();
                    if strict_cross(g0, g1, ev.dir) {
                        firing += 1;
                        rep.count("intervals_with_strict_sign_change", 1);
                        if stopped_here && closed == 0 && !matches!(ev.kind, EvKind::Time { .. }) {
                            // the stopping point is not an accepted step endpoint: the solver judged this function on the
                            // full step, which only the run without the terminal flag shows. Judge the cut interval only
                            // if g along that full step has exactly one sign change and it lies clearly before the stop
                            // (t - c is monotone and needs no such confirmation).
                            let mut twin = scn.clone();
                            for e2 in twin.events.iter_mut() {
                                e2.terminal = None;
                            }
                            let mut single_crossing_before_stop = false;
                            if let Outcome::Ok(ts) = run_solve(&prob, &twin, false, false).out {
                                if let Some(idx) = ts.t.iter().position(|&v| v.to_bits() == t[k].to_bits()) {
                                    if idx + 1 < ts.t.len() {
                                        let (ta, tb) = (ts.t[idx], ts.t[idx + 1]);
                                        let ns = 48;
                                        let mut changes = 0;
                                        let mut change_at = ta;
                                        let mut prev = g0;
                                        let mut ok = true;
                                        for q in 1..=ns {
                                            let tt = if q == ns { tb } else { ta + (tb - ta) * (q as f64) / (ns as f64) };
                                            match ts.sol(tt) {
                                                Ok(w) => {
                                                    let gv = ev.g(tt, &w);
                                                    if gv == 0.0 || gv.signum() != prev.signum() {
                                                        changes += 1;
                                                        change_at = tt;
                                                    }
                                                    if gv != 0.0 {
                                                        prev = gv;
                                                    }
                                                }
                                                Err(_) => {
                                                    ok = false;
                                                    break;
                                                }
                                            }
                                        }
                                        single_crossing_before_stop = ok && changes == 1 && (t[k + 1] - dirn * 4.0 * delta(t[k + 1]) - change_at) * dirn > 0.0;
                                    }
                                }
                            }
                            if !single_crossing_before_stop {
                                rep.inconclusive("cut_interval_not_decidable_from_the_full_step");
                                continue;
                            }
                        }
                        if closed == 0 || open >= 2 {
                            let mut c2 = case.clone();
                            c2["interval"] = json!({"k": k, "t_k": t[k], "t_k1": t[k + 1], "g_k": g0, "g_k1": g1, "function": e, "events_of_function": sol.t_events[e]});
                            rep.violate(
                                &format!("C09/sign_change_reported_once/{}/{}", m, kn),
                                format!("function {} changes sign ({:e} -> {:e}, direction filter {}) over [{:e}, {:e}] but {} events are reported in that step", e, g0, g1, ev.dir, t[k], t[k + 1], closed),
                                &case_id,
                                c2,
                            );
                        }
                    } else if g0.signum() == g1.signum() {
                        rep.count("intervals_with_same_sign", 1);
                        if open >= 1 {
                            let mut c2 = case.clone();
                            c2["interval"] = json!({"k": k, "t_k": t[k], "t_k1": t[k + 1], "g_k": g0, "g_k1": g1, "function": e, "events_of_function": sol.t_events[e]});
                            rep.violate(
                                &format!("C09/no_event_without_sign_change/{}/{}", m, kn),
                                format!("function {} has the same strict sign at both ends of [{:e}, {:e}] but {} events are reported strictly inside", e, t[k], t[k + 1], open),
                                &case_id,
                                c2,
                            );
                        }
                    } else {
                        // sign change of the direction that is filtered out: no event may be reported inside
                        rep.count("intervals_with_filtered_sign_change", 1);
                        if open >= 1 {
                            let mut c2 = case.clone();
                            c2["interval"] = json!({"k": k, "t_k": t[k], "t_k1": t[k + 1], "g_k": g0, "g_k1": g1, "function": e});
                            rep.violate(&format!("C09/filtered_direction_reported/{}/{}", m, kn), format!("function {} crosses in the direction excluded by its filter {} over [{:e}, {:e}] but an event is reported", e, ev.dir, t[k], t[k + 1]), &case_id, c2);
                        }
                    }
                }
                if firing >= 2 {
                    rep.count("steps_with_two_or_more_functions_firing", 1);
                }
            }
            if let Some((e, c)) = known_root {
                let ev = &scn.events[e];
                // g = t - c increases with t: in integration order the crossing is positive forward, negative backward
                let expected = if ev.dir == 0 || (ev.dir as f64) * dirn > 0.0 { 1 } else { 0 };
                rep.count("known_root_cases", 1);
                let got = sol.t_events[e].len();
                if sol.status == Status::Success {
                    let mut c2 = case.clone();
                    c2["known_root"] = json!({"function": e, "c": c, "reported": sol.t_events[e]});
                    if got != expected {
                        rep.violate(&format!("C09/known_root_count/{}/time", m), format!("g = t - {:e} (filter {}, integration direction {}) must yield {} event(s) but {} were reported", c, ev.dir, dirn, expected, got), &case_id, c2);
                    } else if expected == 1 {
                        let err = (sol.t_events[e][0] - c).abs();
                        rep.worst("known_root_location_error_over_delta", err / delta(c));
                        if err > delta(c) {
                            rep.violate(&format!("C09/known_root_location/{}/time", m), format!("root of t - {:e} located at {:e} (error {:e} > {:e})", c, sol.t_events[e][0], err, delta(c)), &case_id, c2);
                        }
                    }
                }
            }
        }
        if i % 701 == 0 {
            rep.sample(json!({"scenario": case, "events_found": sol.t_events.iter().map(|v| v.len()).collect::<Vec<_>>(), "accepted_steps": sol.naccpt}));
        }
        let _ = (next_up(0.0), next_down(0.0));
    });
    (rep, meta)
}
