//! C10 — a terminal event stops the run at the event (twin-run differential monitor).

use super::common::*;
use crate::ctx::{Ctx, Meta};
use crate::probe::*;
use crate::report::Report;
use crate::rng::Rng;
use crate::util::{bits_eq, par_for};
use ivp::prelude::*;
use serde_json::json;

pub fn run(ctx: &Ctx) -> (Report, Meta) {
    let meta = Meta::new(
        "bounded problems x 6 methods x both directions x tolerances x {plain, t_eval, dense_output}; 1..4 event functions whose roots are placed from a pilot run's grid (mid-step, near boundaries, several in one step with the terminal one first or last in time), terminal occurrence counts 1..3; every case is run twice, with and without the terminal flag; non-trivial = pair in which the terminal event reached its count (distinct by scenario hash)",
    )
    .assume("the twin run shares everything but terminal_count; its events define which occurrence stops the run")
    .floor("pairs_checked", 500)
    .floor("pairs_with_terminal_stop", 300)
    .floor("stops_with_other_events_in_same_step", 20)
    .floor("stops_with_t_eval", 60);
    let n = ctx.size(80_000, 5_000_000);
    let g = GenOpts { stiff_for_implicit: true, allow_max_step: true, bidirectional_problems: true, max_span: 30.0, ..Default::default() };
    let rep = par_for(n, "C10", |i, rep| {
        let case_id = format!("pair/{}", i);
        if !ctx.want(&case_id) {
            return;
        }
        let mut rng = Rng::derive(ctx.seed, 10, i as u64);
        let (prob, mut scn) = gen_case(&mut rng, &g);
        scn.first_step = if scn.method == Method::RK4 { Some(scn.dir() * (scn.xend - scn.x0).abs() / rng.range(30.0, 200.0)) } else { None };
        scn.max_steps = None;
        scn.t_eval = None;
        let m = mname(scn.method);
        let nst = scn.y0.len();
        let dirn = scn.dir();
        let Some(grid) = pilot_grid(&prob, &scn) else {
            rep.inconclusive("pilot_run_unusable");
            return;
        };
        let ng = grid.len();
        // events: several in one step
        let nev = 1 + rng.below(4);
        let kshared = rng.below(ng - 1);
        scn.events.clear();
        for e in 0..nev {
            let k = if e == 0 || rng.chance(0.6) { kshared } else { rng.below(ng - 1) };
            let (a, b) = (grid[k], grid[k + 1]);
            let c = match rng.below(5) {
                0 | 1 | 2 => a + (b - a) * rng.range(0.03, 0.97),
                3 => b - (b - a) * 1e-9,
                _ => a + (b - a) * 1e-9,
            };
            let inside = (c - scn.x0) * dirn > 0.0 && (c - scn.xend) * dirn < 0.0;
            if rng.chance(0.55) && inside {
                scn.events.push(EvSpec { kind: EvKind::Time { c }, dir: 0, terminal: None });
            } else {
                scn.events.push(random_event(&mut rng, nst, scn.x0, scn.xend));
            }
        }
        let term_idx = rng.below(nev);
        let mut count = 1 + rng.below(3);
        if rng.chance(0.4) {
            let k = 2 + rng.below(15);
            let mut te: Vec<f64> = (0..k).map(|_| scn.x0 + (scn.xend - scn.x0) * rng.f()).collect();
            te.push(scn.x0);
            te.push(scn.xend);
            te.sort_by(|a, b| a.partial_cmp(b).unwrap());
            if dirn < 0.0 {
                te.reverse();
            }
            te.dedup();
            scn.t_eval = Some(te);
        }
        // a terminal event a few ulps after an interior step end and a requested time a few ulps after the event: the
        // requested time belongs to the next step and lies beyond the stop
        if scn.t_eval.is_some() && ng >= 4 && rng.chance(0.3) {
            let xk = grid[1 + rng.below(ng - 2)];
            let u = xk.abs().max(f64::MIN_POSITIVE) * f64::EPSILON;
            let j = 1 + rng.below(3);
            let c = xk + dirn * j as f64 * u;
            let tq = xk + dirn * (j + 1 + rng.below(4)) as f64 * u;
            let inside = (tq - scn.x0) * dirn > 0.0 && (tq - scn.xend) * dirn < 0.0 && (c - xk) * dirn > 0.0 && (tq - c) * dirn > 0.0;
            if inside {
                scn.events[term_idx] = EvSpec { kind: EvKind::Time { c }, dir: 0, terminal: None };
                count = 1;
                let te = scn.t_eval.as_mut().unwrap();
                te.push(tq);
                te.sort_by(|a, b| a.partial_cmp(b).unwrap());
                if dirn < 0.0 {
                    te.reverse();
                }
                te.dedup();
                rep.count("pairs_with_event_and_request_within_ulps_of_a_step_end", 1);
            }
        }
        scn.dense = rng.bool();
        let twin = scn.clone();
        let mut term = scn.clone();
        term.events[term_idx].terminal = Some(count);
        let ra = run_solve(&prob, &term, false, false);
        let rt = run_solve(&prob, &twin, false, false);
        rep.evals(2);
        let mut case = term.describe(&prob);
        case["terminal_function"] = json!(term_idx);
        let cls = if scn.t_eval.is_some() { "t_eval" } else if scn.dense { "dense" } else { "plain" };
        let sig = |clause: &str| format!("C10/{}/{}/{}", clause, m, cls);
        let (a, t) = match (&ra.out, &rt.out) {
            (Outcome::Ok(a), Outcome::Ok(t)) => (a, t),
            (Outcome::Panic(msg), _) | (_, Outcome::Panic(msg)) => {
                rep.violate(&sig("no_panic"), format!("panic: {}", msg), &case_id, case);
                return;
            }
            _ => {
                rep.inconclusive("run_not_ok");
                return;
            }
        };
        if t.status != Status::Success {
            rep.inconclusive("twin_not_successful");
            return;
        }
        rep.count("pairs_checked", 1);
        let reached = t.t_events[term_idx].len() >= count;
        if !reached {
            // nothing may change
            let same = a.status == t.status && bits_eq(&a.t, &t.t) && crate::util::bits_eq2(&a.y, &t.y) && (0..nev).all(|e| bits_eq(&a.t_events[e], &t.t_events[e]));
            if !same {
                rep.violate(&sig("unreached_terminal_changes_run"), format!("the terminal event never reached its count {} (twin found {} occurrences) but the run differs from the twin (status {:?})", count, t.t_events[term_idx].len(), a.status), &case_id, case);
            }
            return;
        }
        rep.count("pairs_with_terminal_stop", 1);
        rep.nontrivial(scn_hash(&term, &prob));
        let te = t.t_events[term_idx][count - 1];
        let ye = &t.y_events[term_idx][count - 1];
        case["stop"] = json!({"t_e": te, "y_e": ye});
        // equal event times from different functions make the processing order ambiguous
        let tie = (0..nev).any(|e| e != term_idx && t.t_events[e].iter().any(|&x| x == te));
        if tie {
            rep.inconclusive("another_event_at_exactly_the_same_time");
            return;
        }
        if a.status != Status::UserInterrupt {
            rep.violate(&sig("status_user_interrupt"), format!("terminal event reached its count at t = {:e} but status is {:?}", te, a.status), &case_id, case.clone());
        }
        // last sample is the event point
        match (a.t.last(), a.y.last()) {
            (Some(&tl), Some(yl)) if tl.to_bits() == te.to_bits() && bits_eq(yl, ye) => {}
            (tl, yl) => {
                rep.violate(&sig("last_sample_is_event_point"), format!("last sample ({:?}, {:?}) is not the event point ({:e}, {:?})", tl, yl, te, ye), &case_id, case.clone());
            }
        }
        // nothing later than the event
        if let Some(k) = a.t.iter().position(|&x| (x - te) * dirn > 0.0) {
            let mut c2 = case.clone();
            c2["reported_t"] = crate::util::jv_trunc(&a.t, 60);
            c2["reported_events"] = json!(a.t_events);
            c2["twin_events"] = json!(t.t_events);
            c2["twin_t"] = crate::util::jv_trunc(&t.t, 60);
            rep.violate(&sig("sample_after_event"), format!("sample t[{}] = {:e} lies after the terminal event at {:e}", k, a.t[k], te), &case_id, c2);
        }
        let mut others_in_step = false;
        for e in 0..nev {
            if let Some(&x) = a.t_events[e].iter().find(|&&x| (x - te) * dirn > 0.0) {
                rep.violate(&sig("event_after_stop"), format!("event of function {} at {:e} lies after the terminal event at {:e}", e, x, te), &case_id, case.clone());
            }
            // events up to and including the stop are those of the twin
            let want: Vec<f64> = t.t_events[e].iter().cloned().filter(|&x| (x - te) * dirn < 0.0 || (e == term_idx && x == te)).collect();
            let wanty: Vec<&Vec<f64>> = t.t_events[e].iter().zip(&t.y_events[e]).filter(|(x, _)| (**x - te) * dirn < 0.0 || (e == term_idx && **x == te)).map(|(_, y)| y).collect();
            // the terminal function itself: exactly its first `count` occurrences
            let want: Vec<f64> = if e == term_idx { t.t_events[e][..count].to_vec() } else { want };
            let wanty: Vec<&Vec<f64>> = if e == term_idx { t.y_events[e][..count].iter().collect() } else { wanty };
            if !bits_eq(&a.t_events[e], &want) {
                let clause = if a.t_events[e].len() < want.len() { "earlier_events_kept" } else { "events_identical_before_stop" };
                let mut c2 = case.clone();
                c2["function"] = json!(e);
                c2["reported"] = json!(a.t_events[e]);
                c2["twin_before_stop"] = json!(want);
                rep.violate(&sig(clause), format!("function {}: events {:?} but the twin has {:?} up to the stop", e, a.t_events[e], want), &case_id, c2);
            } else {
                for (k, y) in a.y_events[e].iter().enumerate() {
                    if k < wanty.len() && !bits_eq(y, wanty[k]) {
                        rep.violate(&sig("events_identical_before_stop"), format!("function {}: event state {} differs from the twin", e, k), &case_id, case.clone());
                    }
                }
            }
            // another event inside the very step of the stop?
            if e != term_idx {
                let kstep = grid_step(&t.t, te, dirn);
                if let Some((lo, hi)) = kstep {
                    if t.t_events[e].iter().any(|&x| x >= lo && x <= hi) {
                        others_in_step = true;
                    }
                }
            }
        }
        if others_in_step {
            rep.count("stops_with_other_events_in_same_step", 1);
        }
        // samples before the stop identical to the twin
        if scn.t_eval.is_none() {
            let want: Vec<usize> = (0..t.t.len()).filter(|&k| (t.t[k] - te) * dirn < 0.0).collect();
            let ok = a.t.len() >= want.len() + 1 && want.iter().enumerate().all(|(j, &k)| a.t[j].to_bits() == t.t[k].to_bits() && bits_eq(&a.y[j], &t.y[k]));
            // between the prefix and the event point at most one sample with t == te (a step boundary coinciding with the event)
            let extra = a.t.len().saturating_sub(want.len() + 1);
            if !ok || extra > 1 || (extra == 1 && a.t[want.len()] != te) {
                let mut c2 = case.clone();
                c2["reported_t"] = crate::util::jv_trunc(&a.t, 60);
                c2["twin_t"] = crate::util::jv_trunc(&t.t, 60);
                rep.violate(&sig("samples_identical_before_stop"), format!("the samples before the stop differ from the twin's ({} reported, {} expected before the event)", a.t.len(), want.len()), &case_id, c2);
            }
        } else {
            rep.count("stops_with_t_eval", 1);
            let tev = scn.t_eval.as_ref().unwrap();
            let want: Vec<f64> = tev.iter().cloned().filter(|&x| (x - te) * dirn <= 0.0).collect();
            let got = &a.t[..a.t.len().saturating_sub(1)];
            if !bits_eq(got, &want) {
                let mut c2 = case.clone();
                c2["reported_t"] = crate::util::jv_trunc(&a.t, 60);
                c2["expected_t"] = crate::util::jv_trunc(&want, 60);
                rep.violate(&sig("requested_times_before_stop"), format!("{} requested times are not beyond the stop but {} were reported before the event point", want.len(), got.len()), &case_id, c2);
            } else {
                for (k, &x) in got.iter().enumerate() {
                    if let Some(p) = t.t.iter().position(|&z| z.to_bits() == x.to_bits()) {
                        if !bits_eq(&a.y[k], &t.y[p]) {
                            rep.violate(&sig("samples_identical_before_stop"), format!("value at requested time {:e} differs from the twin", x), &case_id, case.clone());
                            break;
                        }
                    }
                }
            }
        }
        if i % 499 == 0 {
            rep.sample(json!({"scenario": case, "stop_at": te, "count": count, "status": format!("{:?}", a.status)}));
        }
    });
    (rep, meta)
}

fn grid_step(t: &[f64], te: f64, _dirn: f64) -> Option<(f64, f64)> {
    for k in 0..t.len().saturating_sub(1) {
        let (lo, hi) = (t[k].min(t[k + 1]), t[k].max(t[k + 1]));
        if te >= lo && te <= hi {
            return Some((lo, hi));
        }
    }
    None
}
