//! C11 — max_step, first_step and max_steps are honoured.

use super::common::*;
use crate::ctx::{Ctx, Meta};
use crate::probe::*;
use crate::report::Report;
use crate::rng::Rng;
use crate::util::{bits_eq, bits_eq2, par_for, EPS};
use ivp::prelude::*;
use serde_json::json;

/// number of stepper evaluations of one step attempt that precede (and include) the stage at x + h
fn attempt_len(m: Method) -> usize {
    match m {
        Method::RK4 => 3,    // k2, k3, k4 (k4 at x + h)
        Method::RK23 => 3,   // k2, k3, k4 (k4 at x + h)
        Method::DOPRI5 => 5, // k2..k6 (k6 at x + h)
        Method::DOP853 => 11,
        Method::RADAU => 3, // first Newton iteration: c1, c2, 1
        Method::BDF => 1,   // f at x_new
    }
}

pub fn run(ctx: &Ctx) -> (Report, Meta) {
    let meta = Meta::new(
        "bounded problems x 6 methods x both directions x tolerances; (a) max_step in {inf, span/4 exactly, span/7, random, smaller than the automatic first step}: every reported interval (no t_eval/first_step) and every callback interval of the low-level builders is compared with max_step (final step may be stretched by 1%); (b) first_step <= min(max_step, span): the first trial step is decoded from the recorded right-hand-side calls (largest |t - x0| among the stage evaluations of the first attempt, which always includes a stage at x0 + h) and the first accepted interval from the first callback; (c) max_steps = k from {1,2,3,5,10, N-1, N, N+5} with N taken from the unbudgeted twin: nstep <= k+1, status NeedLargerNMax exactly when the budget ran out, returned t/y bit-identical to the prefix of the unbudgeted twin; non-trivial = option actually binding (a step clipped by max_step, a first step accepted, a budget that ran out), distinct by scenario hash",
    )
    .assume("per attempt every method evaluates a stage at x + h (c = 1); attempt lengths RK4 3, RK23 3, DOPRI5 5, DOP853 11, Radau 3, BDF 1 stepper evaluations (cross-checked by the C02 extraction)")
    .thresholds(json!({"max_step_slack": "4 eps relative", "final_step_stretch": 1.01}))
    .floor("max_step_intervals_checked", 20000)
    .floor("steps_clipped_by_max_step", 2000)
    .floor("first_trial_steps_decoded", 500)
    .floor("first_steps_accepted", 200)
    .floor("budget_pairs_checked", 500)
    .floor("budgets_that_ran_out", 200);
    let g = GenOpts { stiff_for_implicit: true, bidirectional_problems: true, max_span: 30.0, ..Default::default() };

    // ---------------- (a) max_step ----------------
    let na = ctx.size(40_000, 600_000);
    let rep = par_for(na, "C11", |i, rep| {
        let case_id = format!("maxstep/{}", i);
        if !ctx.want(&case_id) {
            return;
        }
        let mut rng = Rng::derive(ctx.seed, 11, i as u64);
        let (prob, mut scn) = gen_case(&mut rng, &g);
        if scn.method == Method::RK4 {
            scn.method = *rng.pick(&ADAPTIVE);
            scn.user_jac = false;
        }
        let m = mname(scn.method);
        let span = (scn.xend - scn.x0).abs();
        let hm = match i % 6 {
            0 => f64::INFINITY,
            1 => span / 4.0,
            2 => span / 7.0,
            3 => span * rng.logu(1e-3, 0.5),
            4 => span * rng.logu(1e-5, 1e-3), // smaller than the automatic first step
            _ => span * rng.range(0.02, 0.3),
        };
        scn.max_step = Some(hm);
        scn.first_step = if rng.chance(0.3) && hm.is_finite() { Some(scn.dir() * hm * rng.range(0.2, 1.0)) } else { None };
        scn.budget = 2_000_000;
        let low = i % 2 == 0;
        let mut case = scn.describe(&prob);
        case["api"] = json!(if low { "low_level" } else { "solve_ivp" });
        let cls = if !hm.is_finite() { "inf" } else if i % 6 == 4 { "below_auto_first_step" } else { "finite" };
        // collect accepted intervals
        let (ts, status_ok): (Vec<f64>, bool) = if low {
            let mut probe = Probe::new(&prob, scn.x0);
            probe.user_jac = scn.user_jac;
            probe.budget = scn.budget;
            let lo = LowOpts { max_step: scn.max_step, first_step: scn.first_step, dense: rng.bool(), ..Default::default() };
            let mut so = RecSolOut::new(Some(&probe));
            match run_low_guarded(scn.method, &probe, scn.x0, &scn.y0, scn.xend, &scn.rtol, &scn.atol, &lo, &mut so) {
                LowOutcome::Ok(ir) => (so.cbs.iter().map(|c| c.x).collect(), ir.status == Status::Success),
                LowOutcome::Panic(msg) => {
                    rep.violate(&format!("C11/no_panic/{}/max_step_{}", m, cls), format!("panic: {}", msg), &case_id, case);
                    return;
                }
                LowOutcome::Budget => {
                    rep.inconclusive("evaluation_budget_exhausted");
                    return;
                }
                LowOutcome::Err(_) => {
                    rep.count("config_errors_returned", 1);
                    return;
                }
            }
        } else {
            let mut s2 = scn.clone();
            s2.first_step = None; // solve_ivp filters the output when first_step is given
            let r = run_solve(&prob, &s2, false, false);
            match r.out {
                Outcome::Ok(sol) => (sol.t.clone(), sol.status == Status::Success),
                Outcome::Panic(msg) => {
                    rep.violate(&format!("C11/no_panic/{}/max_step_{}", m, cls), format!("panic: {}", msg), &case_id, case);
                    return;
                }
                Outcome::Budget => {
                    rep.inconclusive("evaluation_budget_exhausted");
                    return;
                }
                Outcome::Err(_) => {
                    rep.count("config_errors_returned", 1);
                    return;
                }
            }
        };
        rep.eval();
        let nint = ts.len().saturating_sub(1);
        let mut clipped = 0;
        for k in 0..nint {
            let h = (ts[k + 1] - ts[k]).abs();
            let last = k + 1 == nint && status_ok;
            let tol = 4.0 * EPS * ts[k].abs().max(ts[k + 1].abs());
            let lim = if last { 1.01 * hm } else { hm };
            rep.count("max_step_intervals_checked", 1);
            if hm.is_finite() && h >= hm * (1.0 - 1e-12) {
                clipped += 1;
            }
            if h > lim * (1.0 + 4.0 * EPS) + tol {
                let mut c2 = case.clone();
                c2["interval"] = json!({"index": k, "from": ts[k], "to": ts[k + 1], "length": h, "is_final": last});
                rep.violate(
                    &format!("C11/step_le_max_step/{}/{}{}", m, cls, if k == 0 { "_first_step" } else if last { "_final_step" } else { "" }),
                    format!("accepted step {} of {} has length {:e} > max_step {:e}{}", k, nint, h, hm, if last { " (even with the 1% final stretch)" } else { "" }),
                    &case_id,
                    c2,
                );
                break;
            }
        }
        rep.count("steps_clipped_by_max_step", clipped);
        if clipped > 0 {
            rep.nontrivial(scn_hash(&scn, &prob));
        }
        if i % 997 == 0 {
            rep.sample(json!({"clause": "max_step", "scenario": case, "intervals": nint, "clipped": clipped}));
        }
    });

    // ---------------- (b) first_step ----------------
    let nb = ctx.size(40_000, 600_000);
    let rep_b = par_for(nb, "C11", |i, rep| {
        let case_id = format!("firststep/{}", i);
        if !ctx.want(&case_id) {
            return;
        }
        let mut rng = Rng::derive(ctx.seed, 1111, i as u64);
        let (prob, mut scn) = gen_case(&mut rng, &g);
        let m = mname(scn.method);
        let span = (scn.xend - scn.x0).abs();
        let dirn = scn.dir();
        let hm = if rng.chance(0.4) && scn.method != Method::RK4 { Some(span * rng.logu(1e-3, 2.0)) } else { None };
        let cap = hm.unwrap_or(f64::INFINITY).min(span);
        // first_step not larger than max_step or the span; tiny, moderate, or exactly the cap
        let fs = match i % 5 {
            0 => cap * rng.logu(1e-6, 1e-2),
            1 => cap * rng.range(0.01, 0.5),
            2 => cap,
            3 => cap * rng.range(0.5, 1.0),
            _ => cap * rng.logu(1e-4, 1.0),
        };
        let signed = if scn.method == Method::RK4 || rng.chance(0.8) { dirn * fs } else { -dirn * fs };
        scn.max_step = hm;
        scn.first_step = Some(signed);
        let mut probe = Probe::new(&prob, scn.x0);
        probe.user_jac = scn.user_jac;
        probe.keep_calls = true;
        probe.budget = 2_000_000;
        let lo = LowOpts { max_step: hm, first_step: Some(signed), dense: rng.bool(), ..Default::default() };
        let mut so = RecSolOut::new(Some(&probe));
        let out = run_low_guarded(scn.method, &probe, scn.x0, &scn.y0, scn.xend, &scn.rtol, &scn.atol, &lo, &mut so);
        rep.eval();
        let mut case = scn.describe(&prob);
        case["api"] = json!("low_level");
        let cls = if fs == cap { "equals_cap" } else if signed * dirn < 0.0 { "wrong_sign" } else { "inside" };
        match out {
            LowOutcome::Ok(_) => {}
            LowOutcome::Panic(msg) => {
                rep.violate(&format!("C11/no_panic/{}/first_step_{}", m, cls), format!("panic: {}", msg), &case_id, case);
                return;
            }
            LowOutcome::Budget => {
                rep.inconclusive("evaluation_budget_exhausted");
                return;
            }
            LowOutcome::Err(_) => {
                rep.count("config_errors_returned", 1);
                return;
            }
        }
        let log = probe.take_log();
        let stepper: Vec<&CallRec> = log.calls.iter().filter(|c| c.kind == 0).collect();
        let al = attempt_len(scn.method);
        if stepper.len() < 1 + al {
            rep.inconclusive("too_few_evaluations_to_decode");
            return;
        }
        // calls[0] is f(x0, y0); the first attempt follows
        let trial = stepper[1..=al].iter().fold(0.0f64, |mx, c| mx.max((c.t - scn.x0).abs()));
        rep.count("first_trial_steps_decoded", 1);
        let tol = 8.0 * EPS * (scn.x0.abs() + fs) + 4.0 * EPS * fs;
        let mut c2 = case.clone();
        c2["decoded"] = json!({"first_trial_step": trial, "first_step": fs, "first_attempt_times": stepper[1..=al].iter().map(|c| c.t).collect::<Vec<_>>()});
        // a first step that is also the final one may be stretched by up to 1% to land on xend
        let stretched_landing = (trial - span).abs() <= tol && span <= 1.01 * fs * (1.0 + 4.0 * EPS);
        if (trial - fs).abs() > tol && !stretched_landing {
            rep.violate(&format!("C11/first_trial_step/{}/{}", m, cls), format!("first trial step decoded from the stage times is {:e} but first_step = {:e}", trial, fs), &case_id, c2.clone());
            return;
        }
        // direction of the first attempt
        if stepper[1..=al].iter().any(|c| (c.t - scn.x0) * dirn < -tol) {
            rep.violate(&format!("C11/first_trial_direction/{}/{}", m, cls), "the first attempt evaluates f on the wrong side of x0".into(), &case_id, c2.clone());
            return;
        }
        // RK4: first_step is the fixed step of every interval but the (clipped or stretched) last one
        if scn.method == Method::RK4 && so.cbs.len() >= 3 {
            for k in 1..so.cbs.len() - 1 {
                let hk = (so.cbs[k].x - so.cbs[k - 1].x).abs();
                rep.count("rk4_fixed_intervals_checked", 1);
                if (hk - fs).abs() > 8.0 * EPS * (so.cbs[k].x.abs() + fs) {
                    rep.violate(&format!("C11/rk4_fixed_step/{}/{}", m, cls), format!("interval {} has length {:e} but the fixed step is {:e}", k, hk, fs), &case_id, c2.clone());
                    break;
                }
            }
            let last = so.cbs.len() - 1;
            let hl = (so.cbs[last].x - so.cbs[last - 1].x).abs();
            if hl > 1.01 * fs * (1.0 + 8.0 * EPS) + 8.0 * EPS * so.cbs[last].x.abs() {
                rep.violate(&format!("C11/rk4_fixed_step/{}/{}_final", m, cls), format!("the final interval has length {:e}, more than 1.01 x the fixed step {:e}", hl, fs), &case_id, c2.clone());
            }
        }
        // if accepted, the first reported interval is first_step
        if so.cbs.len() >= 2 {
            let h1 = (so.cbs[1].x - scn.x0).abs();
            let accepted_first = (h1 - fs).abs() <= tol || (stretched_landing && (h1 - span).abs() <= tol);
            if accepted_first {
                rep.count("first_steps_accepted", 1);
                rep.nontrivial(scn_hash(&scn, &prob));
            } else if !is_implicit(scn.method) {
                // a different first interval needs a second attempt: more evaluations than one attempt
                let extra = match scn.method {
                    Method::RK4 => 1,
                    Method::DOP853 => 5,
                    Method::DOPRI5 => 1,
                    _ => 0,
                };
                let calls_before = stepper.iter().filter(|c| true && c.kind == 0).count().min(so.cbs[1].calls_at_entry as usize);
                if calls_before <= 1 + al + extra {
                    rep.violate(&format!("C11/first_interval/{}/{}", m, cls), format!("the first attempt (h = {:e}) was the only one made before the first callback, but the first reported interval is {:e}", fs, h1), &case_id, c2.clone());
                }
                if h1 > fs + tol {
                    rep.violate(&format!("C11/first_interval/{}/{}", m, cls), format!("first reported interval {:e} is longer than first_step {:e}", h1, fs), &case_id, c2.clone());
                }
            }
        }
        if i % 997 == 0 {
            rep.sample(c2);
        }
    });

    // ---------------- (c) max_steps ----------------
    let nc = ctx.size(32_000, 500_000);
    let rep_c = par_for(nc, "C11", |i, rep| {
        let case_id = format!("budget/{}", i);
        if !ctx.want(&case_id) {
            return;
        }
        let mut rng = Rng::derive(ctx.seed, 111111, i as u64);
        let (mut prob, mut scn) = gen_case(&mut rng, &g);
        let m = mname(scn.method);
        // a fifth of the cases: the interval straddles t = 0 and is covered in a few long steps, so that the final
        // step x + (xend - x) is computed with cancellation and may land an ulp beside xend; the budget is then set to
        // exactly the number of steps the run needs
        let straddle = rng.chance(0.2) && (scn.xend - scn.x0).abs() <= 50.0 && scn.t_eval.is_none();
        if straddle {
            let span = (scn.xend - scn.x0).abs();
            let d = scn.dir();
            scn.x0 = -d * rng.range(0.02, 0.6) * span;
            scn.xend = scn.x0 + d * span;
            scn.max_step = None;
            scn.first_step = None;
            if rng.bool() {
                // trivial dynamics: every method, BDF included, covers the interval in a handful of long steps
                let n = 1 + rng.below(3);
                prob = crate::problems::Simple::Zero { n };
                scn.y0 = (0..n).map(|_| rng.range(-2.0, 2.0)).collect();
                scn.events.clear();
                // tolerances of the right dimension
                scn.rtol = Tol::S(rng.logu(1e-8, 1e-3));
                scn.atol = Tol::S(rng.logu(1e-10, 1e-4));
            }
        }
        if scn.method == Method::RK4 {
            scn.first_step = Some(scn.dir() * (scn.xend - scn.x0).abs() / rng.range(8.0, 120.0));
        } else if straddle {
            scn.first_step = Some(scn.dir() * (scn.xend - scn.x0).abs() * rng.range(0.15, 0.6));
        } else if rng.chance(0.2) {
            // a far too large first step provokes rejections before the second accepted step
            scn.first_step = Some(scn.dir() * (scn.xend - scn.x0).abs() * rng.range(0.3, 1.0));
        }
        scn.dense = rng.bool();
        if rng.chance(0.3) {
            scn.events.push(random_event(&mut rng, scn.y0.len(), scn.x0, scn.xend));
        }
        let unb = run_solve(&prob, &scn, false, false);
        let u = match &unb.out {
            Outcome::Ok(s) if s.status == Status::Success => s,
            Outcome::Panic(msg) => {
                rep.violate(&format!("C11/no_panic/{}/budget", m), format!("panic: {}", msg), &case_id, scn.describe(&prob));
                return;
            }
            _ => {
                rep.inconclusive("unbudgeted_twin_not_successful");
                return;
            }
        };
        let nn = u.nstep.max(1);
        if u.t.last().map(|&t| t != scn.xend).unwrap_or(false) {
            rep.count(&format!("budget_twin_lands_an_ulp_beside_xend_{}", m), 1);
        }
        let k = match i % 8 {
            0 => 1,
            1 => 2,
            2 => 3,
            3 => 5,
            4 => 10,
            5 => nn.saturating_sub(1).max(1),
            6 => nn,
            _ => nn + 5,
        };
        let k = if straddle && (i % 2 == 0 || scn.method == Method::BDF) { nn } else { k };
        let mut sb = scn.clone();
        sb.max_steps = Some(k);
        let rb = run_solve(&prob, &sb, false, false);
        rep.evals(2);
        let mut case = sb.describe(&prob);
        case["unbudgeted"] = json!({"nstep": u.nstep, "naccpt": u.naccpt, "nrejct": u.nrejct, "len_t": u.t.len()});
        let b = match &rb.out {
            Outcome::Ok(s) => s,
            Outcome::Panic(msg) => {
                rep.violate(&format!("C11/no_panic/{}/budget", m), format!("panic: {}", msg), &case_id, case);
                return;
            }
            _ => {
                rep.inconclusive("budgeted_run_not_ok");
                return;
            }
        };
        rep.count("budget_pairs_checked", 1);
        case["budgeted"] = json!({"nstep": b.nstep, "naccpt": b.naccpt, "status": format!("{:?}", b.status), "len_t": b.t.len()});
        let cls = if k >= nn { "not_binding" } else { "binding" };
        if b.nstep > k + 1 {
            rep.violate(&format!("C11/nstep_le_budget_plus_1/{}/{}", m, cls), format!("max_steps = {} but nstep = {}", k, b.nstep), &case_id, case.clone());
        }
        if u.nstep <= k {
            // the budget is not binding: nothing may change
            if b.status != Status::Success || !bits_eq(&b.t, &u.t) || !bits_eq2(&b.y, &u.y) {
                rep.violate(&format!("C11/unbinding_budget_changes_run/{}/{}", m, cls), format!("the unbudgeted run needs {} steps <= max_steps = {} but the budgeted run differs (status {:?})", u.nstep, k, b.status), &case_id, case.clone());
            }
        } else {
            if u.nstep > k + 1 {
                rep.count("budgets_that_ran_out", 1);
                rep.nontrivial(scn_hash(&sb, &prob));
                if b.status != Status::NeedLargerNMax {
                    rep.violate(&format!("C11/status_need_larger_nmax/{}/{}", m, cls), format!("the unbudgeted run needs {} steps > max_steps + 1 = {} but status is {:?}", u.nstep, k + 1, b.status), &case_id, case.clone());
                }
            }
            if b.status != Status::NeedLargerNMax && b.status != Status::Success {
                rep.violate(&format!("C11/status_need_larger_nmax/{}/{}", m, cls), format!("unexpected status {:?}", b.status), &case_id, case.clone());
            }
            // prefix
            let kk = b.t.len();
            if kk > u.t.len() || !bits_eq(&b.t, &u.t[..kk]) || !bits_eq2(&b.y, &u.y[..kk]) {
                let mut c2 = case.clone();
                c2["budgeted_t"] = crate::util::jv_trunc(&b.t, 30);
                c2["unbudgeted_t"] = crate::util::jv_trunc(&u.t, 30);
                rep.violate(&format!("C11/prefix_of_unbudgeted_run/{}/{}", m, cls), "the budgeted result is not bit-identical to the corresponding prefix of the unbudgeted run".into(), &case_id, c2);
            }
            if b.status == Status::NeedLargerNMax && b.t.is_empty() {
                rep.violate(&format!("C11/prefix_of_unbudgeted_run/{}/{}", m, cls), "budget ran out and no sample at all was returned".into(), &case_id, case.clone());
            }
        }
        if i % 997 == 0 {
            rep.sample(json!({"clause": "max_steps", "scenario": case}));
        }
    });
    let mut rep = rep;
    rep.merge(rep_b);
    rep.merge(rep_c);
    (rep, meta)
}
