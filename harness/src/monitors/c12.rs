//! C12 — output options do not perturb the integration (bitwise metamorphic monitor).

use super::common::*;
use crate::ctx::{Ctx, Meta};
use crate::probe::*;
use crate::report::Report;
use crate::rng::Rng;
use crate::util::{bits_eq, bits_eq2, par_for};
use ivp::prelude::*;
use serde_json::json;

struct Obs {
    hash: u64,
    n_ode: u64,
    status: String,
    counters: [usize; 6],
    t: Vec<f64>,
    y: Vec<Vec<f64>>,
    t_events: Vec<Vec<f64>>,
    sol_end: Option<Vec<f64>>,
    sol_mid: Option<Vec<f64>>,
}

pub fn run(ctx: &Ctx) -> (Report, Meta) {
    let meta = Meta::new(
        "for each base configuration (bounded problem x 6 methods x tolerances x direction x optional first_step/max_step/max_steps x analytic/FD Jacobian) the 8 subsets of {t_eval, dense_output, non-terminal events} are run plus one repetition; compared bitwise: hash of the complete ode call log (t and y bit patterns of every stepper evaluation, accepted and rejected attempts), evaluation counts, all step statistics, status, the reported accepted-step sequence (runs without t_eval), requested-time values (runs with t_eval), sol(t) of dense runs; low-level builders: dense on/off and callback present/absent twins (callback sequence, ode-log hash, status, statistics); non-trivial = base configuration with >= 3 accepted steps (distinct by scenario hash)",
    )
    .assume("64-bit FNV hash over all bit patterns of the ode log; collisions negligible")
    .floor("option_sets_compared", 2000)
    .floor("base_configs_with_rejections", 30)
    .floor("low_level_dense_toggle_pairs", 500)
    .floor("low_level_callback_free_twins", 500);
    let g = GenOpts {
        stiff_for_implicit: true,
        allow_min_step: true,
        allow_first_step: true,
        allow_max_step: true,
        allow_max_steps: true,
        ..Default::default()
    };
    let n = ctx.size(12_000, 300_000);
    let g_ref = &g;
    let rep = par_for(n, "C12", |i, rep| {
        let g = g_ref;
        let case_id = format!("base/{}", i);
        if !ctx.want(&case_id) {
            return;
        }
        let mut rng = Rng::derive(ctx.seed, 12, i as u64);
        let (prob, base) = gen_case(&mut rng, &g);
        let m = mname(base.method);
        let nst = base.y0.len();
        // requested times and events used by the subsets (t_eval is completed below from the
        // plain run's own accepted-step grid: exact step ends, a few ulps beside them, interior)
        let k = 2 + rng.below(9);
        let mut te: Vec<f64> = (0..k).map(|_| base.x0 + (base.xend - base.x0) * rng.f()).collect();
        te.push(base.xend);
        let nev = 1 + rng.below(3);
        let evs: Vec<EvSpec> = (0..nev).map(|_| random_event(&mut rng, nst, base.x0, base.xend)).collect();
        let tmid = base.x0 + (base.xend - base.x0) * rng.range(0.1, 0.9);
        let te_cell = std::cell::RefCell::new(te);
        let run_one = |mask: usize| -> Result<Obs, String> {
            let te = te_cell.borrow().clone();
            let mut s = base.clone();
            s.t_eval = if mask & 1 != 0 { Some(te.clone()) } else { None };
            s.dense = mask & 2 != 0;
            s.events = if mask & 4 != 0 { evs.clone() } else { Vec::new() };
            let r = run_solve(&prob, &s, false, false);
            match r.out {
                Outcome::Ok(sol) => {
                    let (sol_end, sol_mid) = if s.dense {
                        (sol.t.last().and_then(|&tl| sol.sol(tl).ok()), sol.sol(tmid).ok())
                    } else {
                        (None, None)
                    };
                    Ok(Obs {
                        hash: r.log.ode_hash,
                        n_ode: r.log.n_ode,
                        status: format!("{:?}", sol.status),
                        counters: [sol.nfev, sol.njev, sol.nlu, sol.nstep, sol.naccpt, sol.nrejct],
                        t: sol.t,
                        y: sol.y,
                        t_events: sol.t_events,
                        sol_end,
                        sol_mid,
                    })
                }
                o => Err(o.tag()),
            }
        };
        let plain = match run_one(0) {
            Ok(o) => o,
            Err(e) => {
                if e.starts_with("Panic") {
                    rep.violate(&format!("C12/no_panic/{}/plain", m), e, &case_id, base.describe(&prob));
                } else {
                    rep.inconclusive("plain_run_not_ok");
                }
                return;
            }
        };
        {
            // complete t_eval from the plain grid
            let mut te = te_cell.borrow_mut();
            let dirn = base.dir();
            for (k, &g) in plain.t.iter().enumerate() {
                if k == 0 {
                    continue;
                }
                match rng.below(8) {
                    0 | 1 => te.push(g),
                    2 => te.push(g + dirn * 3e-13 * (1.0 + g.abs())),
                    3 => te.push(g - dirn * 3e-13 * (1.0 + g.abs())),
                    4 | 5 => {
                        // 1..12 ulps beyond / before the step end (the sampler treats times within a few ulps of a
                        // step end specially; that treatment must stay invisible to the stepper)
                        let ul = 1 + rng.below(12);
                        let mut v = g;
                        let up = (rng.bool()) == (dirn > 0.0);
                        for _ in 0..ul {
                            v = if up { crate::util::next_up(v) } else { crate::util::next_down(v) };
                        }
                        te.push(v);
                    }
                    _ => {}
                }
            }
            te.retain(|t| (*t - base.x0) * dirn >= 0.0 && (*t - base.xend) * dirn <= 0.0);
            te.sort_by(|a, b| a.partial_cmp(b).unwrap());
            if dirn < 0.0 {
                te.reverse();
            }
            te.dedup();
        }
        let te: Vec<f64> = te_cell.borrow().clone();
        rep.eval();
        if plain.counters[4] >= 3 {
            rep.nontrivial(scn_hash(&base, &prob));
        }
        if plain.counters[5] > 0 {
            rep.count("base_configs_with_rejections", 1);
        }
        let names = ["plain", "t_eval", "dense", "t_eval+dense", "events", "t_eval+events", "dense+events", "t_eval+dense+events"];
        let mut obs: Vec<Option<Obs>> = Vec::new();
        obs.push(None);
        for mask in 1..8usize {
            rep.eval();
            match run_one(mask) {
                Err(e) => {
                    rep.violate(&format!("C12/outcome_differs/{}/{}", m, names[mask]), format!("plain run returned {} but option set {} gave {}", plain.status, names[mask], e), &case_id, base.describe(&prob));
                    obs.push(None);
                }
                Ok(o) => {
                    rep.count("option_sets_compared", 1);
                    let mut case = base.describe(&prob);
                    case["option_set"] = json!(names[mask]);
                    case["t_eval_used"] = json!(te);
                    if o.hash != plain.hash || o.n_ode != plain.n_ode {
                        rep.violate(
                            &format!("C12/ode_log_differs/{}/{}", m, names[mask]),
                            format!("the sequence of right-hand-side calls differs from the plain run ({} vs {} calls, hash {:x} vs {:x})", o.n_ode, plain.n_ode, o.hash, plain.hash),
                            &case_id,
                            case.clone(),
                        );
                    }
                    if o.counters != plain.counters {
                        rep.violate(&format!("C12/statistics_differ/{}/{}", m, names[mask]), format!("[nfev,njev,nlu,nstep,naccpt,nrejct] = {:?} vs plain {:?}", o.counters, plain.counters), &case_id, case.clone());
                    }
                    if o.status != plain.status {
                        rep.violate(&format!("C12/status_differs/{}/{}", m, names[mask]), format!("status {} vs plain {}", o.status, plain.status), &case_id, case.clone());
                    }
                    if mask & 1 == 0 {
                        // accepted step sequence and state at every accepted step
                        if !bits_eq(&o.t, &plain.t) || !bits_eq2(&o.y, &plain.y) {
                            rep.violate(&format!("C12/accepted_steps_differ/{}/{}", m, names[mask]), "reported accepted steps (t, y) differ bitwise from the plain run".into(), &case_id, case.clone());
                        }
                    }
                    obs.push(Some(o));
                }
            }
        }
        // t_eval values must not depend on dense/events
        if let Some(Some(a)) = obs.get(1) {
            for mask in [3usize, 5, 7] {
                if let Some(Some(b)) = obs.get(mask) {
                    if !bits_eq(&a.t, &b.t) || !bits_eq2(&a.y, &b.y) {
                        rep.violate(&format!("C12/teval_values_differ/{}/{}", m, names[mask]), "values at the requested times differ bitwise between option sets".into(), &case_id, base.describe(&prob));
                    }
                }
            }
        }
        // dense solutions identical across option sets; final state consistent
        if let Some(Some(a)) = obs.get(2) {
            for mask in [3usize, 6, 7] {
                if let Some(Some(b)) = obs.get(mask) {
                    if let (Some(x), Some(y)) = (&a.sol_mid, &b.sol_mid) {
                        if !bits_eq(x, y) {
                            rep.violate(&format!("C12/dense_values_differ/{}/{}", m, names[mask]), "sol(t) differs bitwise between option sets".into(), &case_id, base.describe(&prob));
                        }
                    }
                }
            }
        }
        // events identical with/without t_eval/dense
        if let Some(Some(a)) = obs.get(4) {
            for mask in [5usize, 6, 7] {
                if let Some(Some(b)) = obs.get(mask) {
                    if a.t_events.len() != b.t_events.len() || a.t_events.iter().zip(&b.t_events).any(|(p, q)| !bits_eq(p, q)) {
                        rep.violate(&format!("C12/events_differ/{}/{}", m, names[mask]), "event times differ bitwise between option sets".into(), &case_id, base.describe(&prob));
                    }
                }
            }
        }
        // repetition
        if let Ok(again) = run_one(7) {
            rep.count("repetitions_compared", 1);
            if let Some(Some(b)) = obs.get(7) {
                let same = again.hash == b.hash
                    && again.counters == b.counters
                    && bits_eq(&again.t, &b.t)
                    && bits_eq2(&again.y, &b.y)
                    && again.t_events.iter().zip(&b.t_events).all(|(p, q)| bits_eq(p, q))
                    && again.sol_end.as_ref().map(|v| hash(v)) == b.sol_end.as_ref().map(|v| hash(v));
                if !same {
                    rep.violate(&format!("C12/repetition_differs/{}/all", m), "repeating the same call gave different results".into(), &case_id, base.describe(&prob));
                }
            }
        }
        if i % 211 == 0 {
            rep.sample(json!({"base": base.describe(&prob), "t_eval": te, "events": evs.iter().map(|e| e.describe()).collect::<Vec<_>>(), "plain_counters": plain.counters, "ode_log_hash": format!("{:x}", plain.hash)}));
        }
    });
    // auxiliary clause: the low-level builders with dense_output on and off make identical callback
    // sequences (x, y); only the evaluation counts may differ (DOP853's three extra stages)
    let nlow = ctx.size(6_000, 150_000);
    let rep_low = par_for(nlow, "C12", |i, rep| {
        let case_id = format!("low/{}", i);
        if !ctx.want(&case_id) {
            return;
        }
        let mut rng = Rng::derive(ctx.seed, 1212, i as u64);
        let (prob, scn) = gen_case(&mut rng, &g);
        let m = mname(scn.method);
        let mut seqs: Vec<Vec<(u64, u64)>> = Vec::new();
        let mut statuses = Vec::new();
        // (ode-log hash, stepper calls, [nfev, njev, nlu, nstep, naccpt, nrejct]) of the dense-off run and of its callback-free twin
        let mut logs: Vec<(u64, u64, [usize; 6], String)> = Vec::new();
        for (dense, no_callback) in [(true, false), (false, false), (false, true)] {
            let mut probe = Probe::new(&prob, scn.x0);
            probe.user_jac = scn.user_jac;
            probe.budget = 1_000_000;
            let lo = LowOpts { dense, no_callback, first_step: scn.first_step, max_step: scn.max_step, max_steps: scn.max_steps, ..Default::default() };
            let mut so = RecSolOut::new(Some(&probe));
            match run_low_guarded(scn.method, &probe, scn.x0, &scn.y0, scn.xend, &scn.rtol, &scn.atol, &lo, &mut so) {
                LowOutcome::Ok(ir) => {
                    if !dense {
                        let l = probe.take_log();
                        logs.push((l.ode_hash, l.n_ode, [ir.evals.ode, ir.evals.jac, ir.evals.lu, ir.steps.total, ir.steps.accepted, ir.steps.rejected], format!("{:?}", ir.status)));
                    }
                    if no_callback {
                        if !so.cbs.is_empty() {
                            rep.violate(&format!("C12/callback_free_twin/{}/low_level", m), "a SolOut that was not passed to the solver was called".into(), &case_id, scn.describe(&prob));
                        }
                        continue;
                    }
                    statuses.push(format!("{:?}/{}/{}", ir.status, ir.steps.accepted, ir.steps.rejected));
                    seqs.push(so.cbs.iter().map(|c| (c.x.to_bits(), hash(&c.y))).collect());
                }
                LowOutcome::Panic(msg) => {
                    rep.violate(&format!("C12/no_panic/{}/low_level", m), msg, &case_id, scn.describe(&prob));
                    return;
                }
                _ => {
                    rep.inconclusive("low_level_run_not_ok");
                    return;
                }
            }
        }
        rep.evals(3);
        rep.count("low_level_dense_toggle_pairs", 1);
        // the run made without a callback is the same integration as the one observed by a callback that always
        // answers Continue: same sequence of right-hand-side calls (accepted and rejected attempts), status, statistics
        if logs.len() == 2 {
            rep.count("low_level_callback_free_twins", 1);
            let (a, b) = (&logs[0], &logs[1]);
            if a.0 != b.0 || a.1 != b.1 || a.2 != b.2 || a.3 != b.3 {
                rep.violate(
                    &format!("C12/callback_free_twin/{}/low_level", m),
                    format!("without a callback: status {}, {} stepper calls, [nfev,njev,nlu,nstep,naccpt,nrejct] = {:?}; with a callback that always continues: status {}, {} calls, {:?}; ode-log hashes {:x} vs {:x}", b.3, b.1, b.2, a.3, a.1, a.2, b.0, a.0),
                    &case_id,
                    scn.describe(&prob),
                );
            }
        }
        if seqs[0] != seqs[1] || statuses[0] != statuses[1] {
            let first = seqs[0].iter().zip(&seqs[1]).position(|(a, b)| a != b);
            rep.violate(&format!("C12/dense_toggle_changes_steps/{}/low_level", m), format!("dense_output on/off: {} vs {} callbacks, statuses {} vs {}, first differing callback {:?}", seqs[0].len(), seqs[1].len(), statuses[0], statuses[1], first), &case_id, scn.describe(&prob));
        }
    });
    let mut rep = rep;
    rep.merge(rep_low);
    let _ = Status::Success;
    (rep, meta)
}
fn hash(v: &[f64]) -> u64 {
    crate::util::hash_f64s(v)
}
