//! C13 — equivalent problems get equivalent answers (metamorphic pair monitors).

use super::common::*;
use crate::ctx::{Ctx, Meta};
use crate::probe::*;
use crate::problems::*;
use crate::report::Report;
use crate::rng::Rng;
use crate::util::{bits_eq, bits_eq2, par_for, EPS};
use ivp::prelude::*;
use serde_json::{json, Value};

/// z(s) = y(-s): z' = -f(-s, z)
struct Reflected<'a>(&'a dyn Problem);
impl<'a> Problem for Reflected<'a> {
    fn dim(&self) -> usize {
        self.0.dim()
    }
    fn f(&self, t: f64, y: &[f64], dy: &mut [f64]) {
        self.0.f(-t, y, dy);
        for v in dy.iter_mut() {
            *v = -*v;
        }
    }
    fn jac_dense(&self, t: f64, y: &[f64]) -> Option<Vec<Vec<f64>>> {
        self.0.jac_dense(-t, y).map(|j| j.into_iter().map(|r| r.into_iter().map(|v| -v).collect()).collect())
    }
    fn describe(&self) -> Value {
        json!({"reflected": self.0.describe()})
    }
}

/// m independent identical copies, stored copy after copy
struct Copies<'a>(&'a dyn Problem, usize);
impl<'a> Problem for Copies<'a> {
    fn dim(&self) -> usize {
        self.0.dim() * self.1
    }
    fn f(&self, t: f64, y: &[f64], dy: &mut [f64]) {
        let n = self.0.dim();
        for c in 0..self.1 {
            self.0.f(t, &y[c * n..(c + 1) * n], &mut dy[c * n..(c + 1) * n]);
        }
    }
    fn jac_dense(&self, t: f64, y: &[f64]) -> Option<Vec<Vec<f64>>> {
        let n = self.0.dim();
        let mut j = vec![vec![0.0; n * self.1]; n * self.1];
        for c in 0..self.1 {
            let b = self.0.jac_dense(t, &y[c * n..(c + 1) * n])?;
            for i in 0..n {
                for k in 0..n {
                    j[c * n + i][c * n + k] = b[i][k];
                }
            }
        }
        Some(j)
    }
    fn describe(&self) -> Value {
        json!({"copies": self.1, "of": self.0.describe()})
    }
}

fn reflect_event(e: &EvSpec) -> EvSpec {
    let kind = match &e.kind {
        EvKind::Time { c } => EvKind::Lin { a: vec![], bt: -1.0, c: *c }, // g = -s - c  (t = -s)
        EvKind::Comp { k, c } => EvKind::Comp { k: *k, c: *c },
        EvKind::Lin { a, bt, c } => EvKind::Lin { a: a.clone(), bt: -*bt, c: *c },
        EvKind::Prod { i, j, c } => EvKind::Prod { i: *i, j: *j, c: *c },
        EvKind::TwoRoots { c1, c2 } => EvKind::TwoRoots { c1: -*c1, c2: -*c2 },
        EvKind::Sq { k, c } => EvKind::Sq { k: *k, c: *c },
    };
    EvSpec { kind, dir: e.dir, terminal: e.terminal }
}

fn first_diff_step(ta: &[f64], ya: &[Vec<f64>], tb: &[f64], yb: &[Vec<f64>], tmap: impl Fn(f64) -> f64, ymap: impl Fn(f64) -> f64) -> Option<usize> {
    for k in 0..ta.len().min(tb.len()) {
        if !crate::util::same_bits(tmap(ta[k]), tb[k]) || ya[k].iter().zip(&yb[k]).any(|(p, q)| !crate::util::same_bits(ymap(*p), *q)) {
            return Some(k);
        }
    }
    if ta.len() != tb.len() {
        return Some(ta.len().min(tb.len()));
    }
    None
}

pub fn run(ctx: &Ctx) -> (Report, Meta) {
    let k_copy: f64 = 300.0;
    let meta = Meta::new(
        "pair monitors on generated problems (bounded benchmark problems and closed-form composites), 6 methods, both directions, tolerances, optional first_step/max_step/events: (1) time reflection z' = -f(-s,z): t' = -t and y' = y bitwise (explicit methods; implicit with user Jacobian; finite-difference Jacobian to rounding), event times mirror to root-finder accuracy; (2) scaling y0 and atol by 2^k, k in +-{1,7,40}, on linear homogeneous systems: times bitwise equal, states exactly scaled; (3) scalar tolerance vs constant vector: bitwise identical t, y, counters; (4) m in {2,4,8,16} identical copies: first reported interval identical to 1e-12, accepted/rejected counts equal (a difference of at most max(3, 15%) accepted / max(6, 100%) rejected steps is an inconclusive tie), copies bitwise equal inside a run, each copy within the accuracy bound of the exact solution; non-trivial = pair with >= 3 accepted steps (distinct by scenario hash and relation)",
    )
    .assume("multiplication by 2^k and negation are exact in binary floating point (no overflow/underflow in the chosen ranges), so relations (1)-(3) are exact identities of the arithmetic actually executed")
    .thresholds(json!({"copies_accuracy_factor": "max(300, per-method constant of C01)", "copies_first_interval_rel": 1e-12}))
    .floor("reflection_pairs", 300)
    .floor("scaling_pairs", 300)
    .floor("scalar_vector_pairs", 300)
    .floor("copies_pairs", 200)
    .floor("reflection_pairs_with_events", 50);
    let n = ctx.size(64_000, 4_800_000);
    let g = GenOpts { allow_max_step: true, allow_first_step: true, bidirectional_problems: true, max_span: 20.0, ..Default::default() };
    let rep = par_for(n, "C13", |i, rep| {
        let case_id = format!("case/{}", i);
        if !ctx.want(&case_id) {
            return;
        }
        let mut rng = Rng::derive(ctx.seed, 13, i as u64);
        let relation = i % 4;
        let method = METHODS[(i / 4) % 6];
        let m = mname(method);
        let (simple, mut scn) = gen_case(&mut rng, &g);
        scn.method = method;
        scn.user_jac = is_implicit(method) && rng.chance(0.7);
        let dirn = scn.dir();
        if method == Method::RK4 {
            scn.first_step = Some(dirn * (scn.xend - scn.x0).abs() / rng.range(10.0, 100.0));
            scn.max_step = None;
        } else if let Some(h) = scn.first_step {
            scn.first_step = Some(dirn * h.abs());
        }
        let jm = if !is_implicit(method) { "explicit" } else if scn.user_jac { "user_jac" } else { "fd_jac" };
        match relation {
            // ---------------------------------------------------------------- reflection
            0 => {
                let comp = if rng.bool() { Some(random_composite(&mut rng, scn.x0, scn.xend, 3, 10.0).0) } else { None };
                let prob: &dyn Problem = match &comp {
                    Some(c) => {
                        scn.y0 = c.y0();
                        let (rt, at) = random_tols(&mut rng, method, c.dim());
                        scn.rtol = rt;
                        scn.atol = at;
                        c
                    }
                    None => &simple,
                };
                let with_events = rng.chance(0.4);
                if with_events {
                    let ne = 1 + rng.below(2);
                    for _ in 0..ne {
                        scn.events.push(random_event(&mut rng, scn.y0.len(), scn.x0, scn.xend));
                    }
                }
                scn.dense = rng.bool();
                let refl = Reflected(prob);
                let mut sr = scn.clone();
                sr.x0 = -scn.x0;
                sr.xend = -scn.xend;
                sr.first_step = scn.first_step.map(|h| -h);
                sr.events = scn.events.iter().map(reflect_event).collect();
                // direction filters: the sign change along the integration is the same for g(t,y) and g'(s,z) = g(-s,z)
                let ra = run_solve(prob, &scn, false, false);
                let rb = run_solve(&refl, &sr, false, false);
                rep.evals(2);
                let mut case = scn.describe(prob);
                case["relation"] = json!("time reflection");
                let (a, b) = match (&ra.out, &rb.out) {
                    (Outcome::Ok(a), Outcome::Ok(b)) => (a, b),
                    (Outcome::Panic(msg), _) | (_, Outcome::Panic(msg)) => {
                        rep.violate(&format!("C13/no_panic/{}/reflection", m), format!("panic: {}", msg), &case_id, case);
                        return;
                    }
                    _ => {
                        rep.inconclusive("run_not_ok");
                        return;
                    }
                };
                rep.count("reflection_pairs", 1);
                if with_events {
                    rep.count("reflection_pairs_with_events", 1);
                }
                if a.naccpt >= 3 {
                    rep.nontrivial(scn_hash(&scn, prob));
                }
                let exact_expected = jm != "fd_jac";
                let diff = first_diff_step(&a.t, &a.y, &b.t, &b.y, |t| -t, |y| y);
                let counters_same = a.status == b.status && a.nfev == b.nfev && a.naccpt == b.naccpt && a.nrejct == b.nrejct && a.nstep == b.nstep && a.njev == b.njev;
                if exact_expected {
                    if diff.is_some() || !counters_same {
                        case["first_differing_sample"] = json!(diff);
                        if let Some(k) = diff {
                            if k < a.t.len() && k < b.t.len() {
                                case["differing_values"] = json!({"t": crate::util::jf(a.t[k]), "t_reflected": crate::util::jf(b.t[k]), "y": a.y[k].iter().map(|v| crate::util::jf(*v)).collect::<Vec<_>>(), "y_reflected": b.y[k].iter().map(|v| crate::util::jf(*v)).collect::<Vec<_>>()});
                            }
                        }
                        case["counters"] = json!({"orig": [a.nfev, a.nstep, a.naccpt, a.nrejct], "reflected": [b.nfev, b.nstep, b.naccpt, b.nrejct], "status": [format!("{:?}", a.status), format!("{:?}", b.status)]});
                        rep.violate(&format!("C13/reflection_bitwise/{}/{}", m, jm), format!("the reflected problem does not give the mirrored trajectory bit for bit (first differing sample {:?}, {} vs {} samples)", diff, a.t.len(), b.t.len()), &case_id, case.clone());
                    }
                } else {
                    rep.count("reflection_fd_pairs", 1);
                    if diff.is_some() {
                        rep.count("reflection_fd_pairs_not_bitwise", 1);
                    }
                    // to rounding: same step counts and end states within tolerance scale
                    if a.status != b.status {
                        rep.violate(&format!("C13/reflection_to_rounding/{}/{}", m, jm), format!("status {:?} vs {:?} for the reflected problem", a.status, b.status), &case_id, case.clone());
                    } else if let (Some(ya), Some(yb)) = (a.y.last(), b.y.last()) {
                        for j in 0..ya.len() {
                            let tol = scn.atol.at(j) + scn.rtol.at(j) * ya[j].abs();
                            if (ya[j] - yb[j]).abs() > 10.0 * tol * (a.naccpt.max(1) as f64) {
                                rep.violate(&format!("C13/reflection_to_rounding/{}/{}", m, jm), format!("end states differ by {:e} (tolerance scale {:e})", (ya[j] - yb[j]).abs(), tol), &case_id, case.clone());
                                break;
                            }
                        }
                    }
                }
                // events mirror
                if with_events && a.t_events.len() == b.t_events.len() {
                    for e in 0..a.t_events.len() {
                        if a.t_events[e].len() != b.t_events[e].len() {
                            if exact_expected {
                                rep.violate(&format!("C13/reflection_events/{}/{}", m, jm), format!("function {}: {} events vs {} for the reflected problem", e, a.t_events[e].len(), b.t_events[e].len()), &case_id, case.clone());
                            }
                            continue;
                        }
                        for (p, q) in a.t_events[e].iter().zip(&b.t_events[e]) {
                            let d = 2.0 * (4e-12 + 8.0 * EPS * p.abs());
                            rep.count("mirrored_events_compared", 1);
                            if exact_expected && (p + q).abs() > d {
                                rep.violate(&format!("C13/reflection_events/{}/{}", m, jm), format!("event at {:e} is mirrored to {:e} (|sum| = {:e} > {:e})", p, q, (p + q).abs(), d), &case_id, case.clone());
                                break;
                            }
                        }
                    }
                }
            }
            // ---------------------------------------------------------------- scaling by 2^k
            1 => {
                let nb = 1 + rng.below(3);
                let mut bases = Vec::new();
                for _ in 0..nb {
                    if rng.bool() {
                        bases.push(Base::Lin1 { lam: -dirn * rng.range(0.0, 1.5), u0: rng.sign() * rng.range(0.3, 2.0) });
                    } else {
                        bases.push(Base::Rot { a: -dirn * rng.range(0.0, 0.4), w: rng.range(0.3, 4.0), u0: [rng.range(-1.0, 1.0), rng.range(0.3, 1.5)] });
                    }
                }
                let nn: usize = bases.iter().map(|b| b.dim()).sum();
                let mix = if nn >= 2 && rng.bool() { Some(Mix::random(nn, &mut rng)) } else { None };
                // the exponential warp is kept mild over the whole interval (phi' between 1/3 and 3)
                let tmax = scn.x0.abs().max(scn.xend.abs()).max(1.0);
                let warp = match rng.below(3) {
                    0 => Warp::Id,
                    1 => Warp::Sin { a: rng.range(-0.5, 0.5), b: rng.range(0.5, 2.0) },
                    _ => Warp::Exp { a: rng.sign() * rng.range(0.1, 1.0) / tmax },
                };
                let c = Composite::new(bases, warp, mix, scn.x0);
                scn.y0 = c.y0();
                let rt = rng.logu(1e-9, 1e-3);
                let at = rt * rng.logu(1e-3, 1.0);
                scn.rtol = Tol::S(rt);
                scn.atol = if rng.bool() { Tol::S(at) } else { Tol::V((0..nn).map(|_| at * rng.range(0.5, 2.0)).collect()) };
                scn.events.clear();
                let k = *rng.pick(&[1i32, -1, 7, -7, 40, -40]);
                let f2 = (2.0f64).powi(k);
                let mut ss = scn.clone();
                ss.y0 = scn.y0.iter().map(|v| v * f2).collect();
                ss.atol = match &scn.atol {
                    Tol::S(a) => Tol::S(a * f2),
                    Tol::V(v) => Tol::V(v.iter().map(|a| a * f2).collect()),
                };
                let ra = run_solve(&c, &scn, false, false);
                let rb = run_solve(&c, &ss, false, false);
                rep.evals(2);
                let mut case = scn.describe(&c);
                case["relation"] = json!(format!("state and atol scaled by 2^{}", k));
                let (a, b) = match (&ra.out, &rb.out) {
                    (Outcome::Ok(a), Outcome::Ok(b)) => (a, b),
                    (Outcome::Panic(msg), _) | (_, Outcome::Panic(msg)) => {
                        rep.violate(&format!("C13/no_panic/{}/scaling", m), format!("panic: {}", msg), &case_id, case);
                        return;
                    }
                    _ => {
                        rep.inconclusive("run_not_ok");
                        return;
                    }
                };
                // exact scaling needs the absence of overflow/underflow: an unstable fixed-step run that blows up is not a witness
                let big = a.y.iter().chain(b.y.iter()).flat_map(|v| v.iter()).any(|x| !x.is_finite() || x.abs() > 1e100 || (*x != 0.0 && x.abs() < 1e-100));
                if big {
                    rep.inconclusive("scaling_overflow_or_underflow_regime");
                    return;
                }
                rep.count("scaling_pairs", 1);
                if a.naccpt >= 3 {
                    rep.nontrivial(scn_hash(&scn, &c) ^ 0x1111);
                }
                if jm == "fd_jac" {
                    // the finite-difference increment is not scale invariant: to rounding only
                    rep.count("scaling_fd_pairs", 1);
                    if a.status != b.status {
                        rep.violate(&format!("C13/scaling_to_rounding/{}/{}", m, jm), format!("status {:?} vs {:?}", a.status, b.status), &case_id, case);
                    }
                    return;
                }
                let diff = first_diff_step(&a.t, &a.y, &b.t, &b.y, |t| t, |y| y * f2);
                if diff.is_some() || a.status != b.status || a.nfev != b.nfev || a.naccpt != b.naccpt || a.nrejct != b.nrejct {
                    case["first_differing_sample"] = json!(diff);
                    case["counters"] = json!({"orig": [a.nfev, a.nstep, a.naccpt, a.nrejct], "scaled": [b.nfev, b.nstep, b.naccpt, b.nrejct]});
                    rep.violate(&format!("C13/scaling_bitwise/{}/{}_k{}", m, jm, if k.abs() >= 30 { "huge" } else { "moderate" }), format!("scaling the state and atol by 2^{} does not scale the trajectory exactly (first differing sample {:?})", k, diff), &case_id, case);
                }
            }
            // ---------------------------------------------------------------- scalar vs vector tolerance
            2 => {
                let comp = if rng.bool() { Some(random_composite(&mut rng, scn.x0, scn.xend, 4, 10.0).0) } else { None };
                let prob: &dyn Problem = match &comp {
                    Some(c) => {
                        scn.y0 = c.y0();
                        c
                    }
                    None => &simple,
                };
                let nn = scn.y0.len();
                let rt = rng.logu(1e-9, 1e-3);
                let at = rt * rng.logu(1e-3, 1.0);
                scn.rtol = Tol::S(rt);
                scn.atol = Tol::S(at);
                let mut sv = scn.clone();
                match rng.below(3) {
                    0 => {
                        sv.rtol = Tol::V(vec![rt; nn]);
                        sv.atol = Tol::V(vec![at; nn]);
                    }
                    1 => sv.rtol = Tol::V(vec![rt; nn]),
                    _ => sv.atol = Tol::V(vec![at; nn]),
                }
                let ra = run_solve(prob, &scn, false, false);
                let rb = run_solve(prob, &sv, false, false);
                rep.evals(2);
                let mut case = sv.describe(prob);
                case["relation"] = json!("scalar tolerance vs constant vector");
                let (a, b) = match (&ra.out, &rb.out) {
                    (Outcome::Ok(a), Outcome::Ok(b)) => (a, b),
                    (Outcome::Panic(msg), _) | (_, Outcome::Panic(msg)) => {
                        rep.violate(&format!("C13/no_panic/{}/scalar_vector", m), format!("panic: {}", msg), &case_id, case);
                        return;
                    }
                    _ => {
                        rep.inconclusive("run_not_ok");
                        return;
                    }
                };
                rep.count("scalar_vector_pairs", 1);
                if a.naccpt >= 3 {
                    rep.nontrivial(scn_hash(&sv, prob) ^ 0x2222);
                }
                let shape = match (&sv.rtol, &sv.atol) {
                    (Tol::V(_), Tol::V(_)) => "both_vector",
                    (Tol::V(_), _) => "rtol_vector",
                    _ => "atol_vector",
                };
                if !bits_eq(&a.t, &b.t) || !bits_eq2(&a.y, &b.y) || a.status != b.status || a.nfev != b.nfev || a.naccpt != b.naccpt || a.nrejct != b.nrejct || a.njev != b.njev {
                    case["counters"] = json!({"scalar": [a.nfev, a.nstep, a.naccpt, a.nrejct], "vector": [b.nfev, b.nstep, b.naccpt, b.nrejct]});
                    rep.violate(&format!("C13/scalar_vs_vector_tolerance/{}/{}_dim{}", m, shape, if nn == 1 { "1" } else { "gt1" }), format!("a scalar tolerance and the equivalent constant vector give different trajectories ({} vs {} accepted steps)", a.naccpt, b.naccpt), &case_id, case);
                }
            }
            // ---------------------------------------------------------------- identical copies
            _ => {
                let (c, amp) = random_composite(&mut rng, scn.x0, scn.xend, 2, 8.0);
                scn.y0 = c.y0();
                let (rt, at) = random_tols(&mut rng, method, c.dim());
                scn.rtol = rt;
                scn.atol = at;
                scn.events.clear();
                if method != Method::RK4 && rng.chance(0.5) {
                    scn.first_step = None;
                }
                let mcopies = *rng.pick(&[2usize, 4, 8, 16]);
                let cp = Copies(&c, mcopies);
                let mut sc = scn.clone();
                sc.y0 = (0..mcopies).flat_map(|_| scn.y0.clone()).collect();
                let rep_tol = |t: &Tol| match t {
                    Tol::S(v) => Tol::S(*v),
                    Tol::V(v) => Tol::V((0..mcopies).flat_map(|_| v.clone()).collect()),
                };
                sc.rtol = rep_tol(&scn.rtol);
                sc.atol = rep_tol(&scn.atol);
                let ra = run_solve(&c, &scn, false, false);
                let rb = run_solve(&cp, &sc, false, false);
                rep.evals(2);
                let mut case = scn.describe(&c);
                case["relation"] = json!(format!("{} identical copies", mcopies));
                let (a, b) = match (&ra.out, &rb.out) {
                    (Outcome::Ok(a), Outcome::Ok(b)) => (a, b),
                    (Outcome::Panic(msg), _) | (_, Outcome::Panic(msg)) => {
                        rep.violate(&format!("C13/no_panic/{}/copies", m), format!("panic: {}", msg), &case_id, case);
                        return;
                    }
                    _ => {
                        rep.inconclusive("run_not_ok");
                        return;
                    }
                };
                if a.status != Status::Success || b.status != Status::Success || a.t.len() < 2 || b.t.len() < 2 {
                    if a.status != b.status {
                        rep.violate(&format!("C13/copies_status/{}/{}", m, jm), format!("single problem: {:?}, {} copies: {:?}", a.status, mcopies, b.status), &case_id, case);
                    } else {
                        rep.inconclusive("copies_runs_not_successful");
                    }
                    return;
                }
                rep.count("copies_pairs", 1);
                if a.naccpt >= 3 {
                    rep.nontrivial(scn_hash(&scn, &c) ^ 0x3333 ^ mcopies as u64);
                }
                let nn = c.dim();
                let auto = if scn.first_step.is_none() { "auto_first_step" } else { "given_first_step" };
                // (a) first reported interval
                let h1a = a.t[1] - a.t[0];
                let h1b = b.t[1] - b.t[0];
                // the interval is observed as a difference of two reported times: allow their rounding (2 ulps each)
                let t_round = 4.0 * f64::EPSILON * a.t[0].abs().max(a.t[1].abs());
                if (h1a - h1b).abs() > 1e-12 * h1a.abs() + t_round {
                    case["first_intervals"] = json!([h1a, h1b]);
                    rep.violate(&format!("C13/copies_first_interval/{}/{}", m, auto), format!("first reported interval {:e} for one system but {:e} for {} copies", h1a, h1b, mcopies), &case_id, case.clone());
                    return;
                }
                // (c1) copies identical inside the run
                for yk in &b.y {
                    for cidx in 1..mcopies {
                        if !bits_eq(&yk[..nn], &yk[cidx * nn..(cidx + 1) * nn]) {
                            rep.violate(&format!("C13/copies_identical_inside_run/{}/{}", m, auto), format!("copy {} differs from copy 0 inside one run", cidx), &case_id, case.clone());
                            return;
                        }
                    }
                }
                // (b) step counts
                let da = (a.naccpt as i64 - b.naccpt as i64).abs();
                let dr = (a.nrejct as i64 - b.nrejct as i64).abs();
                // once the RMS sums round differently the controllers take slightly different decisions (measured in
                // the design round: the difference does not stay at 1e-16); small count differences are ties
                let allow = 3.max((0.15 * a.naccpt as f64).ceil() as i64);
                let allow_rej = 6.max(a.nrejct.max(b.nrejct) as i64);
                rep.worst("copies_accepted_count_difference_rel", da as f64 / a.naccpt.max(1) as f64);
                if da == 0 && dr == 0 {
                    rep.count("copies_pairs_with_equal_counts", 1);
                } else if da <= allow && dr <= allow_rej {
                    rep.inconclusive("copies_step_count_tie");
                } else {
                    case["counters"] = json!({"single": [a.naccpt, a.nrejct], "copies": [b.naccpt, b.nrejct]});
                    rep.violate(&format!("C13/copies_step_counts/{}/{}", m, auto), format!("{} / {} accepted / rejected steps for one system but {} / {} for {} copies", a.naccpt, a.nrejct, b.naccpt, b.nrejct, mcopies), &case_id, case.clone());
                }
                // (c2) each copy as accurate as the single system: its error stays within the accuracy bound, or at
                // least within a small multiple of what the single system delivers on the same problem (the absolute
                // accuracy of a method is C01's subject; here only the copies are)
                if method != Method::RK4 {
                    let worst_of = |s: &Solution, ncomp: usize| -> (f64, f64) {
                        let mut w: f64 = 0.0;
                        let mut wt = 0.0;
                        for (k, &t) in s.t.iter().enumerate() {
                            let ex = c.exact(t).unwrap();
                            for j in 0..ncomp {
                                let tol = scn.atol.at(j % nn) + scn.rtol.at(j % nn) * ex[j % nn].abs();
                                let r = (s.y[k][j] - ex[j % nn]).abs() / (amp * (s.naccpt.max(1) as f64) * tol);
                                if r > w {
                                    w = r;
                                    wt = t;
                                }
                            }
                        }
                        (w, wt)
                    };
                    let (rs, _) = worst_of(a, nn);
                    let (rc, tc) = worst_of(b, nn * mcopies);
                    rep.worst(&format!("copies_err_over_naccpt_tol_{}", m), rc);
                    if rc.is_finite() && rs.is_finite() && rs > 0.0 {
                        rep.worst("copies_err_over_single_err", rc / rs.max(1e-3));
                    }
                    if rc > k_copy.max(super::c01::k_method(method)) && !(rc <= 10.0 * rs) {
                        rep.violate(&format!("C13/copies_accuracy/{}/{}", m, auto), format!("copy solution at t = {:e} has error {:.0} x naccpt x tol (single system: {:.0})", tc, rc, rs), &case_id, case.clone());
                        return;
                    }
                }
            }
        }
        if i % 601 == 0 {
            let rel_name = ["reflection", "scaling", "scalar_vs_vector", "copies"][relation];
            rep.sample(json!({"relation": rel_name, "scenario_method": m, "x0": scn.x0, "xend": scn.xend}));
        }
    });
    (rep, meta)
}

#[allow(dead_code)]
pub fn debug_reflect() {
    use crate::problems::*;
    let bases = vec![
        Base::PR { lam: -19.255343379143415, om: 1.7770489660129283, u0: -0.8993629662298237 },
    ];
    let c = Composite::new(bases, Warp::Id, None, 0.001);
    let mut scn = Scn::new(Method::RK4, 0.001, 8.345018515978568, c.y0());
    scn.first_step = Some(0.18888601365172833);
    let refl = Reflected(&c);
    let mut sr = scn.clone();
    sr.x0 = -scn.x0;
    sr.xend = -scn.xend;
    sr.first_step = scn.first_step.map(|h| -h);
    let a = run_solve(&c, &scn, true, true);
    let b = run_solve(&refl, &sr, true, true);
    let (sa, sb) = (a.out.sol().unwrap(), b.out.sol().unwrap());
    for k in 0..sa.t.len() {
        if sa.t[k] != -sb.t[k] || sa.y[k] != sb.y[k] {
            println!("sample {} t {:e} {:e} y {:?} {:?}", k, sa.t[k], sb.t[k], sa.y[k], sb.y[k]);
            break;
        }
    }
    for k in 0..a.log.calls.len() {
        if a.log.calls[k].t != -b.log.calls[k].t || a.log.ys[k] != b.log.ys[k] {
            println!("call {} t {:e} {:e} y {:?} {:?}", k, a.log.calls[k].t, b.log.calls[k].t, a.log.ys[k], b.log.ys[k]);
            let mut d1 = vec![0.0];
            let mut d2 = vec![0.0];
            c.f(a.log.calls[k - 1].t, &a.log.ys[k - 1], &mut d1);
            refl.f(b.log.calls[k - 1].t, &b.log.ys[k - 1], &mut d2);
            println!("prev call f: {:?} {:?}  t {:e} {:e}", d1, d2, a.log.calls[k - 1].t, b.log.calls[k - 1].t);
            break;
        }
    }
}
