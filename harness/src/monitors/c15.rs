//! C15 — mass matrices, DAEs and Jacobian sources/storages are interchangeable.

use super::common::*;
use crate::ctx::{Ctx, Meta};
use crate::probe::*;
use crate::problems::*;
use crate::report::Report;
use crate::rng::Rng;
use crate::util::{bits_eq, bits_eq2, par_for};
use ivp::methods::RADAU;
use ivp::prelude::*;
use serde_json::{json, Value};

/// banded linear system with forcing: y' = B y + s(t), B with lower/upper bandwidth (ml, mu), diagonally
/// dominant (stable), optional cubic damping on the diagonal (keeps the Jacobian banded)
struct BandedSys {
    n: usize,
    ml: usize,
    mu: usize,
    b: Vec<Vec<f64>>,
    cubic: f64,
    om: Vec<f64>,
    /// optional nonsingular (diagonally dominant) mass matrix, its band independent of the Jacobian's
    mass: Option<Vec<Vec<f64>>>,
}
impl BandedSys {
    fn random(rng: &mut Rng, n: usize, ml: usize, mu: usize, strong_offdiag: bool) -> Self {
        let mut b = vec![vec![0.0; n]; n];
        for i in 0..n {
            let mut s = 0.0;
            for j in 0..n {
                let k = i as isize - j as isize;
                if i != j && k <= ml as isize && -k <= mu as isize {
                    b[i][j] = if strong_offdiag { rng.sign() * rng.range(5.0, 60.0) } else { rng.range(-1.0, 1.0) };
                    s += b[i][j].abs();
                }
            }
            b[i][i] = if strong_offdiag { -rng.range(0.5, 2.0) } else { -(s + rng.range(0.2, 2.0)) };
        }
        if strong_offdiag {
            // keep it stable: feed-forward structure only (strictly lower or strictly upper part)
            for i in 0..n {
                for j in 0..n {
                    if (ml >= mu && j > i) || (ml < mu && j < i) {
                        b[i][j] = 0.0;
                    }
                }
            }
        }
        BandedSys { n, ml, mu, b, cubic: if rng.bool() { rng.range(0.0, 0.5) } else { 0.0 }, om: (0..n).map(|_| rng.range(0.3, 2.0)).collect(), mass: None }
    }
}
impl Problem for BandedSys {
    fn dim(&self) -> usize {
        self.n
    }
    fn f(&self, t: f64, y: &[f64], dy: &mut [f64]) {
        for i in 0..self.n {
            let mut s = (self.om[i] * t).sin() - self.cubic * y[i] * y[i] * y[i];
            for j in 0..self.n {
                if self.b[i][j] != 0.0 {
                    s += self.b[i][j] * y[j];
                }
            }
            dy[i] = s;
        }
    }
    fn jac_dense(&self, _t: f64, y: &[f64]) -> Option<Vec<Vec<f64>>> {
        let mut j = self.b.clone();
        for i in 0..self.n {
            j[i][i] -= 3.0 * self.cubic * y[i] * y[i];
        }
        Some(j)
    }
    fn mass_dense(&self) -> Option<Vec<Vec<f64>>> {
        self.mass.clone()
    }
    fn describe(&self) -> Value {
        json!({"family": "banded_system", "n": self.n, "ml": self.ml, "mu": self.mu, "B": self.b, "cubic": self.cubic, "mass": self.mass})
    }
}

/// semi-explicit index-1 DAE with known solution: y1' = g(t,y1) + (y2 - c(y1)), 0 = y2 - c(y1), c(u) = u^2 + 1
struct SemiExplicit {
    base: Composite,
    coupling: f64,
}
impl Problem for SemiExplicit {
    fn dim(&self) -> usize {
        2
    }
    fn f(&self, t: f64, y: &[f64], dy: &mut [f64]) {
        let mut g = [0.0];
        self.base.f(t, &y[..1], &mut g);
        dy[0] = g[0] + self.coupling * (y[1] - (y[0] * y[0] + 1.0));
        dy[1] = y[1] - (y[0] * y[0] + 1.0);
    }
    fn exact(&self, t: f64) -> Option<Vec<f64>> {
        let u = self.base.exact(t)?[0];
        Some(vec![u, u * u + 1.0])
    }
    fn jac_dense(&self, t: f64, y: &[f64]) -> Option<Vec<Vec<f64>>> {
        let jb = self.base.jac_dense(t, &y[..1])?[0][0];
        Some(vec![vec![jb - self.coupling * 2.0 * y[0], self.coupling], vec![-2.0 * y[0], 1.0]])
    }
    fn mass_dense(&self) -> Option<Vec<Vec<f64>>> {
        Some(vec![vec![1.0, 0.0], vec![0.0, 0.0]])
    }
    fn describe(&self) -> Value {
        json!({"family": "semi_explicit_index1_dae", "base": self.base.describe(), "coupling": self.coupling})
    }
}

/// Robertson in DAE form: third equation replaced by the conservation law
struct RobertsonDae;
impl Problem for RobertsonDae {
    fn dim(&self) -> usize {
        3
    }
    fn f(&self, _t: f64, y: &[f64], dy: &mut [f64]) {
        dy[0] = -0.04 * y[0] + 1.0e4 * y[1] * y[2];
        dy[1] = 0.04 * y[0] - 1.0e4 * y[1] * y[2] - 3.0e7 * y[1] * y[1];
        dy[2] = y[0] + y[1] + y[2] - 1.0;
    }
    fn jac_dense(&self, _t: f64, y: &[f64]) -> Option<Vec<Vec<f64>>> {
        Some(vec![vec![-0.04, 1.0e4 * y[2], 1.0e4 * y[1]], vec![0.04, -1.0e4 * y[2] - 6.0e7 * y[1], -1.0e4 * y[1]], vec![1.0, 1.0, 1.0]])
    }
    fn mass_dense(&self) -> Option<Vec<Vec<f64>>> {
        Some(vec![vec![1.0, 0.0, 0.0], vec![0.0, 1.0, 0.0], vec![0.0, 0.0, 0.0]])
    }
    fn describe(&self) -> Value {
        json!({"family": "robertson_dae"})
    }
}

fn random_mass(rng: &mut Rng, n: usize, banded: Option<(usize, usize)>) -> Vec<Vec<f64>> {
    // well conditioned: diagonally dominant
    let mut m = vec![vec![0.0; n]; n];
    for i in 0..n {
        let mut s = 0.0;
        for j in 0..n {
            let k = i as isize - j as isize;
            let inb = match banded {
                Some((ml, mu)) => k <= ml as isize && -k <= mu as isize,
                None => true,
            };
            if i != j && inb && rng.chance(0.8) {
                m[i][j] = rng.range(-0.6, 0.6);
                s += m[i][j].abs();
            }
        }
        m[i][i] = s + rng.range(0.8, 2.0);
    }
    m
}

fn same(a: &Solution, b: &Solution) -> bool {
    a.status == b.status && bits_eq(&a.t, &b.t) && bits_eq2(&a.y, &b.y) && a.nfev == b.nfev && a.naccpt == b.naccpt && a.nrejct == b.nrejct
}

pub fn run(ctx: &Ctx) -> (Report, Meta) {
    let k_acc = 300.0;
    let meta = Meta::new(
        "(a) Radau on M y' = M g(t,y) with random well-conditioned dense and banded M (dim 1..8, mass_storage Full/Banded) against the closed-form solution of y' = g; (b) index-1 DAEs with singular M: semi-explicit systems with known solution (algebraic residual and state error at every sample) and the Robertson DAE form vs the committed reference; (c) problems without a mass override run with mass_storage Identity / Full / Banded(ml,mu) through Options and through RADAU::builder() with its defaults: bitwise equal to the Identity run; (d) storage independence: Identity vs Full vs Banded holding the same mass entries, Full vs Banded(ml,mu) holding the same Jacobian entries for all band patterns n<=6 and random ones up to 8 (Radau and BDF, incl. feed-forward cascades that force row exchanges): bitwise equal t, y, counters; (e) analytic vs finite-difference Jacobian: both within the accuracy bound of the exact solution; non-trivial = pair/run with a non-identity mass or a banded storage (distinct by scenario hash)",
    )
    .assume("accuracy constant K = 300 x A x naccpt x (atol + rtol|y|) as in C01/C14 (calibrated)")
    .thresholds(json!({"accuracy_factor_K": k_acc, "dae_residual_factor_in_internal_tolerance_units": 300}))
    .floor("mass_runs_checked", 150)
    .floor("dae_runs_checked", 60)
    .floor("default_mass_pairs", 100)
    .floor("mass_storage_pairs", 100)
    .floor("jac_storage_pairs", 300)
    .floor("jac_source_pairs", 100);
    let n = ctx.size(24_000, 2_000_000);
    let rep = par_for(n, "C15", |i, rep| {
        let case_id = format!("case/{}", i);
        if !ctx.want(&case_id) {
            return;
        }
        let mut rng = Rng::derive(ctx.seed, 15, i as u64);
        let clause = i % 6;
        match clause {
            // ------------------------------------------------------------ (a) nonsingular mass
            0 => {
                let dirn = rng.sign();
                let x0 = rng.range(-1.0, 1.0);
                let xend = x0 + dirn * rng.range(0.5, 5.0);
                let (c, amp) = random_composite(&mut rng, x0, xend, 8, 10.0);
                let nn = c.dim();
                let banded = if rng.bool() && nn >= 2 { Some((rng.below(nn), rng.below(nn))) } else { None };
                let mm = random_mass(&mut rng, nn, banded);
                let prob = WithMass { inner: c.clone(), m: mm };
                let mut scn = Scn::new(Method::RADAU, x0, xend, c.y0());
                let rt = rng.logu(1e-9, 1e-3);
                scn.rtol = Tol::S(rt);
                scn.atol = Tol::S(rt * rng.logu(1e-3, 1.0));
                scn.user_jac = rng.bool();
                scn.mass_storage = match banded {
                    Some((ml, mu)) if rng.bool() => MatrixStorage::Banded { ml, mu },
                    _ => MatrixStorage::Full,
                };
                let res = run_solve(&prob, &scn, false, false);
                rep.eval();
                let case = scn.describe(&prob);
                let cls = format!("{}_mass", if matches!(scn.mass_storage, MatrixStorage::Full) { "full" } else { "banded" });
                match &res.out {
                    Outcome::Ok(sol) if sol.status == Status::Success => {
                        rep.count("mass_runs_checked", 1);
                        rep.nontrivial(scn_hash(&scn, &prob));
                        let mut worst: f64 = 0.0;
                        for (k, &t) in sol.t.iter().enumerate() {
                            let ex = c.exact(t).unwrap();
                            for j in 0..nn {
                                let sc = scn.atol.at(j) + scn.rtol.at(j) * ex[j].abs();
                                worst = worst.max((sol.y[k][j] - ex[j]).abs() / (sc * amp * sol.naccpt.max(1) as f64));
                            }
                        }
                        rep.worst("mass_form_err_over_naccpt_tol", worst);
                        if !(worst <= k_acc) {
                            rep.violate(&format!("C15/mass_form_agrees_with_explicit_form/RADAU/{}", cls), format!("M y' = M g solved with error {:.1} x A x naccpt x tolerance scale against the solution of y' = g", worst), &case_id, case);
                        }
                    }
                    Outcome::Panic(msg) => rep.violate(&format!("C15/no_panic/RADAU/{}", cls), msg.clone(), &case_id, case),
                    other => rep.violate(&format!("C15/mass_form_solved/RADAU/{}", cls), format!("{} on a well-conditioned mass-matrix problem", other.tag()), &case_id, case),
                }
            }
            // ------------------------------------------------------------ (b) index-1 DAEs
            1 => {
                let robertson = (i / 6) % 4 == 3;
                if robertson {
                    let tend = *rng.pick(&[40.0, 1e4]);
                    let mut scn = Scn::new(Method::RADAU, 0.0, tend, vec![1.0, 0.0, 0.0]);
                    let tol = *rng.pick(&[1e-4, 1e-6, 1e-8]);
                    scn.rtol = Tol::S(tol);
                    scn.atol = Tol::V(vec![tol * 1e-2, tol * 1e-6, tol * 1e-2]);
                    scn.user_jac = rng.bool();
                    scn.mass_storage = if rng.bool() { MatrixStorage::Full } else { MatrixStorage::Banded { ml: 0, mu: 0 } };
                    let res = run_solve(&RobertsonDae, &scn, false, false);
                    rep.eval();
                    let case = scn.describe(&RobertsonDae);
                    match &res.out {
                        Outcome::Ok(sol) if sol.status == Status::Success => {
                            rep.count("dae_runs_checked", 1);
                            rep.nontrivial(scn_hash(&scn, &RobertsonDae));
                            let yref: [f64; 3] = if tend == 40.0 { [0.7158270687193946, 9.185534764557573e-06, 0.2841637457458408] } else { [0.10730042869, 4.8001669e-07, 0.89269909] };
                            let yl = sol.y.last().unwrap();
                            let mut res_max: f64 = 0.0;
                            for y in &sol.y {
                                res_max = res_max.max((y[0] + y[1] + y[2] - 1.0).abs());
                            }
                            rep.worst("robertson_dae_constraint_residual_over_tol", res_max / tol);
                            if res_max > 100.0 * tol {
                                rep.violate("C15/dae_constraint/RADAU/robertson_dae", format!("algebraic constraint y1+y2+y3-1 violated by {:e} at tolerance {:e}", res_max, tol), &case_id, case.clone());
                            }
                            let mut worst: f64 = 0.0;
                            for j in 0..3 {
                                let prec = if tend == 40.0 { 0.0 } else { 1e-7 * yref[j].abs() };
                                worst = worst.max(((yl[j] - yref[j]).abs() - prec).max(0.0) / ((scn.atol.at(j) + tol * yref[j].abs()) * sol.naccpt.max(1) as f64));
                            }
                            rep.worst("robertson_dae_err_over_naccpt_tol", worst);
                            if worst > k_acc {
                                rep.violate("C15/dae_accuracy/RADAU/robertson_dae", format!("end state error {:.1} x naccpt x tolerance scale", worst), &case_id, case);
                            }
                        }
                        Outcome::Panic(msg) => rep.violate("C15/no_panic/RADAU/robertson_dae", msg.clone(), &case_id, case),
                        other => rep.violate("C15/dae_solved/RADAU/robertson_dae", format!("{} on the Robertson DAE to t = {:e}", other.tag(), tend), &case_id, case),
                    }
                } else {
                    let dirn = 1.0;
                    let x0 = rng.range(-0.5, 0.5);
                    let xend = x0 + dirn * rng.range(0.5, 4.0);
                    let (mut base, _) = random_composite(&mut rng, x0, xend, 1, 8.0);
                    base.mix = None;
                    let prob = SemiExplicit { base: base.clone(), coupling: rng.range(-1.0, 1.0) };
                    let y0 = prob.exact(x0).unwrap();
                    let mut scn = Scn::new(Method::RADAU, x0, xend, y0);
                    let rt = rng.logu(1e-9, 1e-3);
                    scn.rtol = Tol::S(rt);
                    scn.atol = Tol::S(rt * rng.logu(1e-2, 1.0));
                    scn.user_jac = rng.bool();
                    scn.mass_storage = match rng.below(3) {
                        0 => MatrixStorage::Full,
                        1 => MatrixStorage::Banded { ml: 0, mu: 0 },
                        _ => MatrixStorage::Banded { ml: 1, mu: 1 },
                    };
                    let res = run_solve(&prob, &scn, false, false);
                    rep.eval();
                    let case = scn.describe(&prob);
                    let cls = if scn.user_jac { "semi_explicit_user_jac" } else { "semi_explicit_fd_jac" };
                    match &res.out {
                        Outcome::Ok(sol) if sol.status == Status::Success => {
                            rep.count("dae_runs_checked", 1);
                            rep.nontrivial(scn_hash(&scn, &prob));
                            let mut worst: f64 = 0.0;
                            let mut resid: f64 = 0.0;
                            let mut resids: Vec<f64> = Vec::with_capacity(sol.t.len());
                            for (k, &t) in sol.t.iter().enumerate() {
                                let ex = prob.exact(t).unwrap();
                                let y = &sol.y[k];
                                let tolj = scn.atol.at(1) + scn.rtol.at(1) * ex[1].abs();
                                resids.push((y[1] - (y[0] * y[0] + 1.0)).abs() / tolj);
                                resid = resid.max((y[1] - (y[0] * y[0] + 1.0)).abs() / tolj);
                                for j in 0..2 {
                                    let sc = scn.atol.at(j) + scn.rtol.at(j) * ex[j].abs();
                                    worst = worst.max((y[j] - ex[j]).abs() / (sc * sol.naccpt.max(1) as f64));
                                }
                            }
                            rep.worst(&format!("dae_constraint_residual_over_tol_{}", cls), resid);
                            rep.worst("dae_err_over_naccpt_tol", worst);
                            // Radau works with the rescaled tolerance rtol' = 0.1 rtol^(2/3); an algebraic variable carries the
                            // local error of that scale directly, so the residual is judged in those units
                            let rescale = (0.1 * rt.powf(2.0 / 3.0) / rt).max(1.0);
                            rep.worst(&format!("dae_constraint_residual_in_internal_tolerance_units_{}", cls), resid / rescale);
                            if resid > 300.0 * rescale {
                                // Known finding (RADAU5's convergence test accepts a single Newton iteration when the rate
                                // remembered from the previous step is tiny): the algebraic variable of ONE sample is off and
                                // the next step repairs it. Two consecutive samples off the constraint are something else.
                                let lim = 300.0 * rescale;
                                let consecutive = resids.windows(2).any(|w| w[0] > lim && w[1] > lim);
                                let cls2 = if consecutive { cls.to_string() } else { "isolated_sample".to_string() };
                                let kbad = resids.iter().position(|&r| r > lim).unwrap_or(0);
                                rep.violate(&format!("C15/dae_constraint/RADAU/{}", cls2), format!("algebraic constraint violated by {:.1} tolerance units ({:.1} in Radau's internal tolerance scale) at sample {} (t = {:e}) of {}", resid, resid / rescale, kbad, sol.t[kbad], sol.t.len()), &case_id, case.clone());
                            }
                            if worst > k_acc {
                                rep.violate(&format!("C15/dae_accuracy/RADAU/{}", cls), format!("state error {:.1} x naccpt x tolerance scale", worst), &case_id, case);
                            }
                        }
                        Outcome::Panic(msg) => rep.violate(&format!("C15/no_panic/RADAU/{}", cls), msg.clone(), &case_id, case),
                        other => rep.violate(&format!("C15/dae_solved/RADAU/{}", cls), format!("{} on a semi-explicit index-1 DAE", other.tag()), &case_id, case),
                    }
                }
            }
            // ------------------------------------------------------------ (c) default mass for every storage
            2 => {
                let g = GenOpts { bidirectional_problems: true, max_span: 8.0, ..Default::default() };
                let (prob, mut scn) = gen_case(&mut rng, &g);
                scn.method = Method::RADAU;
                scn.user_jac = rng.bool();
                scn.supply_mass = false;
                let nn = scn.y0.len();
                let base = {
                    let mut s = scn.clone();
                    s.mass_storage = MatrixStorage::Identity;
                    run_solve(&prob, &s, false, false)
                };
                let Outcome::Ok(a) = &base.out else {
                    rep.inconclusive("identity_run_not_ok");
                    return;
                };
                for st in [MatrixStorage::Full, MatrixStorage::Banded { ml: 0, mu: 0 }, MatrixStorage::Banded { ml: rng.below(nn), mu: rng.below(nn) }] {
                    let mut s = scn.clone();
                    s.mass_storage = st.clone();
                    let r = run_solve(&prob, &s, false, false);
                    rep.eval();
                    rep.count("default_mass_pairs", 1);
                    rep.nontrivial(scn_hash(&s, &prob));
                    let case = s.describe(&prob);
                    let cls = match st {
                        MatrixStorage::Full => "options_full",
                        _ => "options_banded",
                    };
                    match &r.out {
                        Outcome::Ok(b) => {
                            if !same(a, b) {
                                rep.violate(&format!("C15/default_mass_is_identity/RADAU/{}", cls), format!("no mass matrix supplied: mass_storage {:?} gives status {:?} and last state {:?}, Identity storage gives {:?} and {:?}", st, b.status, b.y.last(), a.status, a.y.last()), &case_id, case);
                            }
                        }
                        Outcome::Panic(msg) => rep.violate(&format!("C15/no_panic/RADAU/{}", cls), msg.clone(), &case_id, case),
                        other => rep.violate(&format!("C15/default_mass_is_identity/RADAU/{}", cls), format!("{} with mass_storage {:?}", other.tag(), st), &case_id, case),
                    }
                }
                // low-level builder with its documented defaults (mass_storage defaults to Full)
                let mut probe = Probe::new(&prob, scn.x0);
                probe.user_jac = scn.user_jac;
                probe.supply_mass = false;
                let mut so = RecSolOut::new(Some(&probe));
                let solver = RADAU::builder().build();
                let r = std::panic::catch_unwind(std::panic::AssertUnwindSafe(|| solver.solve(&probe, scn.x0, &scn.y0, scn.xend, scn.rtol.to_tolerance(), scn.atol.to_tolerance(), Some(&mut so))));
                rep.eval();
                rep.count("default_mass_pairs", 1);
                let case = scn.describe(&prob);
                match r {
                    Ok(Ok(_)) => {
                        let ok = so.cbs.len() == a.t.len() && so.cbs.iter().zip(a.t.iter().zip(&a.y)).all(|(c, (t, y))| c.x.to_bits() == t.to_bits() && bits_eq(&c.y, y));
                        if !ok {
                            rep.violate("C15/default_mass_is_identity/RADAU/builder_defaults", format!("RADAU::builder().build() without a mass override: {} callbacks ending in {:?}; solve_ivp with Identity mass: {} samples ending in {:?}", so.cbs.len(), so.cbs.last().map(|c| c.y.clone()), a.t.len(), a.y.last()), &case_id, case);
                        }
                    }
                    Ok(Err(e)) => rep.violate("C15/default_mass_is_identity/RADAU/builder_defaults", format!("Err({:?})", e), &case_id, case),
                    Err(p) => rep.violate("C15/no_panic/RADAU/builder_defaults", crate::probe::panic_message(&p), &case_id, case),
                }
            }
            // ------------------------------------------------------------ (d1) mass storage independence
            3 => {
                let dirn = 1.0;
                let x0 = rng.range(-1.0, 1.0);
                let xend = x0 + dirn * rng.range(0.5, 4.0);
                let (c, _) = random_composite(&mut rng, x0, xend, 6, 10.0);
                let nn = c.dim();
                let identity = rng.chance(0.3);
                let (ml, mu) = (rng.below(nn), rng.below(nn));
                let mm = if identity { (0..nn).map(|r| (0..nn).map(|q| if r == q { 1.0 } else { 0.0 }).collect()).collect() } else { random_mass(&mut rng, nn, Some((ml, mu))) };
                let prob = WithMass { inner: c.clone(), m: mm };
                let mut scn = Scn::new(Method::RADAU, x0, xend, c.y0());
                let rt = rng.logu(1e-8, 1e-3);
                scn.rtol = Tol::S(rt);
                scn.atol = Tol::S(rt * 1e-2);
                scn.user_jac = rng.bool();
                let mut variants: Vec<MatrixStorage> = vec![MatrixStorage::Full, MatrixStorage::Banded { ml, mu }, MatrixStorage::Banded { ml: nn - 1, mu: nn - 1 }];
                if identity {
                    variants.push(MatrixStorage::Identity);
                }
                let mut firsts: Option<Solution> = None;
                for st in variants {
                    let mut s = scn.clone();
                    s.mass_storage = st.clone();
                    let r = run_solve(&prob, &s, false, false);
                    rep.eval();
                    let case = s.describe(&prob);
                    match r.out {
                        Outcome::Ok(b) => match &firsts {
                            None => firsts = Some(b),
                            Some(a) => {
                                rep.count("mass_storage_pairs", 1);
                                rep.nontrivial(scn_hash(&s, &prob));
                                if !same(a, &b) {
                                    rep.violate(&format!("C15/mass_storage_independent/RADAU/{}", if identity { "identity_entries" } else { "banded_entries" }), format!("mass storage {:?} and Full hold the same entries but give different trajectories ({} vs {} accepted steps, status {:?} vs {:?})", st, b.naccpt, a.naccpt, b.status, a.status), &case_id, case);
                                }
                            }
                        },
                        Outcome::Panic(msg) => rep.violate("C15/no_panic/RADAU/mass_storage", msg, &case_id, case),
                        other => rep.violate("C15/mass_storage_independent/RADAU/run_failed", format!("{} with mass storage {:?}", other.tag(), st), &case_id, case),
                    }
                }
            }
            // ------------------------------------------------------------ (d2) Jacobian storage independence
            4 => {
                let method = if (i / 6) % 2 == 0 { Method::RADAU } else { Method::BDF };
                let m = mname(method);
                let sub = i / 12;
                // all band patterns for n <= 6 in turn, random beyond
                let (nn, ml, mu) = if sub < 91 {
                    let mut k = sub;
                    let mut found = (2, 0, 0);
                    'o: for n_ in 1..=6usize {
                        for a in 0..n_ {
                            for b in 0..n_ {
                                if k == 0 {
                                    found = (n_, a, b);
                                    break 'o;
                                }
                                k -= 1;
                            }
                        }
                    }
                    found
                } else {
                    let n_ = 2 + rng.below(7);
                    (n_, rng.below(n_), rng.below(n_))
                };
                let strong = rng.chance(0.35);
                let mut prob = BandedSys::random(&mut rng, nn, ml, mu, strong);
                let x0 = 0.0;
                let xend = rng.range(0.5, 4.0);
                let y0: Vec<f64> = (0..nn).map(|_| rng.range(-1.0, 1.0)).collect();
                let mut scn = Scn::new(method, x0, xend, y0);
                if method == Method::RADAU && rng.chance(0.4) {
                    // a mass matrix whose band has nothing to do with the Jacobian's (often wider): the iteration matrices
                    // fac*M - J are dense objects whatever the storage of J
                    let (mml, mmu) = if rng.bool() { (nn - 1, nn - 1) } else { (rng.below(nn), rng.below(nn)) };
                    let mut mm = vec![vec![0.0; nn]; nn];
                    for r in 0..nn {
                        for c in 0..nn {
                            let k = r as isize - c as isize;
                            if r == c {
                                mm[r][c] = rng.range(0.8, 2.0);
                            } else if k <= mml as isize && -k <= mmu as isize {
                                mm[r][c] = rng.range(-0.3, 0.3) / nn as f64;
                            }
                        }
                    }
                    prob.mass = Some(mm);
                    scn.mass_storage = if rng.bool() { MatrixStorage::Full } else { MatrixStorage::Banded { ml: mml, mu: mmu } };
                    rep.count("jac_storage_cases_with_a_mass_matrix", 1);
                }
                let rt = rng.logu(1e-8, 1e-3);
                scn.rtol = Tol::S(rt);
                scn.atol = Tol::S(rt * 1e-2);
                scn.user_jac = true;
                let full = run_solve(&prob, &scn, false, false);
                let Outcome::Ok(a) = &full.out else {
                    if let Outcome::Panic(msg) = &full.out {
                        rep.violate(&format!("C15/no_panic/{}/jac_full", m), msg.clone(), &case_id, scn.describe(&prob));
                    } else {
                        rep.inconclusive("full_jacobian_run_not_ok");
                    }
                    return;
                };
                for (bl, bu) in [(ml, mu), (nn - 1, nn - 1), ((ml + 1).min(nn - 1), mu)] {
                    let mut s = scn.clone();
                    s.jac_storage = MatrixStorage::Banded { ml: bl, mu: bu };
                    let r = run_solve(&prob, &s, false, false);
                    rep.eval();
                    rep.count("jac_storage_pairs", 1);
                    rep.nontrivial(scn_hash(&s, &prob));
                    let case = s.describe(&prob);
                    let cls = if strong { "cascade_with_row_exchanges" } else { "diagonally_dominant" };
                    match &r.out {
                        Outcome::Ok(b) => {
                            if !same(a, b) {
                                rep.violate(&format!("C15/jacobian_storage_independent/{}/{}", m, cls), format!("Banded({},{}) and Full Jacobian storage hold the same entries (n = {}, band ({},{})) but give different trajectories: {} vs {} accepted steps, status {:?} vs {:?}", bl, bu, nn, ml, mu, b.naccpt, a.naccpt, b.status, a.status), &case_id, case);
                            }
                        }
                        Outcome::Panic(msg) => rep.violate(&format!("C15/no_panic/{}/jac_banded", m), msg.clone(), &case_id, case),
                        other => rep.violate(&format!("C15/jacobian_storage_independent/{}/run_failed", m), format!("{} with Banded({},{}) Jacobian storage", other.tag(), bl, bu), &case_id, case),
                    }
                }
            }
            // ------------------------------------------------------------ (e) analytic vs finite-difference Jacobian
            _ => {
                let method = if (i / 6) % 2 == 0 { Method::RADAU } else { Method::BDF };
                let m = mname(method);
                let dirn = rng.sign();
                let x0 = rng.range(-1.0, 1.0);
                let xend = x0 + dirn * rng.range(0.5, 6.0);
                let (c, amp) = random_composite(&mut rng, x0, xend, 8, 10.0);
                let nn = c.dim();
                let mut scn = Scn::new(method, x0, xend, c.y0());
                let rt = rng.logu(if method == Method::BDF { 1e-8 } else { 1e-10 }, 1e-3);
                scn.rtol = Tol::S(rt);
                scn.atol = Tol::S(rt * rng.logu(1e-3, 1.0));
                let mut ends: Vec<Vec<f64>> = Vec::new();
                for uj in [true, false] {
                    let mut s = scn.clone();
                    s.user_jac = uj;
                    let r = run_solve(&c, &s, false, false);
                    rep.eval();
                    let case = s.describe(&c);
                    match &r.out {
                        Outcome::Ok(sol) if sol.status == Status::Success => {
                            let mut worst: f64 = 0.0;
                            for (k, &t) in sol.t.iter().enumerate() {
                                let ex = c.exact(t).unwrap();
                                for j in 0..nn {
                                    let sc = s.atol.at(j) + s.rtol.at(j) * ex[j].abs();
                                    worst = worst.max((sol.y[k][j] - ex[j]).abs() / (sc * amp * sol.naccpt.max(1) as f64));
                                }
                            }
                            rep.worst(&format!("jac_source_err_over_naccpt_tol_{}_{}", m, if uj { "user" } else { "fd" }), worst);
                            if worst > k_acc {
                                rep.violate(&format!("C15/jacobian_source_within_tolerance/{}/{}", m, if uj { "user_jac" } else { "fd_jac" }), format!("error {:.1} x A x naccpt x tolerance scale", worst), &case_id, case);
                            }
                            ends.push(sol.y.last().unwrap().clone());
                        }
                        Outcome::Panic(msg) => rep.violate(&format!("C15/no_panic/{}/jac_source", m), msg.clone(), &case_id, case),
                        other => rep.violate(&format!("C15/jacobian_source_within_tolerance/{}/{}", m, if uj { "user_jac" } else { "fd_jac" }), format!("{} on a smooth problem", other.tag()), &case_id, case),
                    }
                }
                if ends.len() == 2 {
                    rep.count("jac_source_pairs", 1);
                    rep.nontrivial(scn_hash(&scn, &c));
                }
            }
        }
        if i % 397 == 0 {
            let cname = ["nonsingular_mass", "index1_dae", "default_mass", "mass_storage", "jacobian_storage", "jacobian_source"][clause];
            rep.sample(json!({"clause": cname, "case": case_id}));
        }
    });
    (rep, meta)
}

#[allow(dead_code)]
pub fn debug_dae() {
    let base = Composite::new(vec![Base::PR { lam: -13.107292695416211, om: 1.5706887784742805, u0: -0.2986777087993251 }], Warp::Id, None, 0.3);
    let prob = SemiExplicit { base, coupling: -0.10651379005738959 };
    let x0 = 0.3;
    let y0 = prob.exact(x0).unwrap();
    for (rt, at) in [(8.338885870278194e-06, 3.0712846627080465e-06), (1e-8, 1e-8)] {
        let mut scn = Scn::new(Method::RADAU, x0, x0 + 2.0, y0.clone());
        scn.rtol = Tol::S(rt);
        scn.atol = Tol::S(at);
        scn.user_jac = true;
        scn.mass_storage = MatrixStorage::Full;
        let r = run_solve(&prob, &scn, false, false);
        let sol = r.out.sol().unwrap();
        println!("rtol {:e}: status {:?} naccpt {} nrejct {} nfev {}", rt, sol.status, sol.naccpt, sol.nrejct, sol.nfev);
        for (k, &t) in sol.t.iter().enumerate() {
            let y = &sol.y[k];
            let ex = prob.exact(t).unwrap();
            println!("  t={:.5} resid/tol={:9.3e} err1/tol={:9.3e} err2/tol={:9.3e}", t, (y[1] - (y[0] * y[0] + 1.0)).abs() / (at + rt * ex[1].abs()), (y[0] - ex[0]).abs() / (at + rt * ex[0].abs()), (y[1] - ex[1]).abs() / (at + rt * ex[1].abs()));
        }
    }
}
