//! C16 — LU factorisation and triangular solves, real and complex.
//!
//! Oracles: (a) componentwise backward-error bound |A x - b| <= g |L||U||x| with the residual
//! evaluated in double-double arithmetic and L, U read from the returned factors (rigorous for
//! Gaussian elimination with any row pivoting; Higham, ASNA Thm 9.4), plus the normwise bound
//! with the growth factor; (b) every stored multiplier <= 1 in magnitude (sqrt 2 for the complex
//! routine, which pivots on |re|+|im|); (c) exactly singular matrices (zero pivot column in exact
//! arithmetic, established with an exact rational elimination that follows the code's pivot
//! order and stays in dyadic rationals) must be rejected with SingularMatrix; (d) shape / pivot
//! length errors; (e) nothing but b is modified by a solve; (f) no panic.

use crate::ctx::{Ctx, Meta};
use crate::dd::DD;
use crate::report::Report;
use crate::rng::Rng;
use crate::util::{hash_f64s, par_for, EPS};
use ivp::matrix::{lin_solve, lin_solve_complex, lu_decomp, lu_decomp_complex};
use ivp::prelude::*;
use serde_json::json;

fn mat_from(a: &[Vec<f64>]) -> Matrix {
    let n = a.len();
    let mut d = Vec::with_capacity(n * n);
    for r in a {
        d.extend_from_slice(r);
    }
    Matrix::from_vec(n, n, d)
}

fn is_singular_err(e: &ivp::error::Error) -> bool {
    matches!(e, ivp::error::Error::LinearAlgebra(ivp::error::LinearAlgebraError::SingularMatrix))
}

// ---- exact rational elimination (i128 fractions) following the code's pivot rule -------------

#[derive(Clone, Copy, Debug, PartialEq)]
struct Q {
    n: i128,
    d: i128,
}
fn gcd(a: i128, b: i128) -> i128 {
    let (mut a, mut b) = (a.abs(), b.abs());
    while b != 0 {
        let t = a % b;
        a = b;
        b = t;
    }
    a.max(1)
}
impl Q {
    fn new(n: i128, d: i128) -> Q {
        let g = gcd(n, d);
        let s = if d < 0 { -1 } else { 1 };
        Q { n: s * n / g, d: s * d / g }
    }
    fn int(n: i64) -> Q {
        Q { n: n as i128, d: 1 }
    }
    fn mul(self, o: Q) -> Q {
        Q::new(self.n * o.n, self.d * o.d)
    }
    fn div(self, o: Q) -> Q {
        Q::new(self.n * o.d, self.d * o.n)
    }
    fn sub(self, o: Q) -> Q {
        Q::new(self.n * o.d - o.n * self.d, self.d * o.d)
    }
    fn is_zero(self) -> bool {
        self.n == 0
    }
    fn abs_gt(self, o: Q) -> bool {
        self.n.abs() * o.d > o.n.abs() * self.d
    }
    fn dyadic_small(self) -> bool {
        self.d > 0 && (self.d & (self.d - 1)) == 0 && self.d < (1 << 40) && self.n.abs() < (1 << 50)
    }
}

/// Exact elimination with the code's pivot rule (largest magnitude, first index on ties).
/// Returns (exactly_zero_pivot_column_found, arithmetic_stayed_dyadic, det_is_zero)
fn exact_ge(a: &[Vec<i64>]) -> (bool, bool, bool) {
    let n = a.len();
    let mut m: Vec<Vec<Q>> = a.iter().map(|r| r.iter().map(|&v| Q::int(v)).collect()).collect();
    let mut dyadic = true;
    for k in 0..n {
        let mut p = k;
        for i in k + 1..n {
            if m[i][k].abs_gt(m[p][k]) {
                p = i;
            }
        }
        if m[p][k].is_zero() {
            return (true, dyadic, true);
        }
        m.swap(k, p);
        for i in k + 1..n {
            let mult = m[i][k].div(m[k][k]);
            if !mult.dyadic_small() {
                dyadic = false;
            }
            for j in k..n {
                let v = m[i][j].sub(mult.mul(m[k][j]));
                if !v.dyadic_small() {
                    dyadic = false;
                }
                m[i][j] = v;
            }
        }
    }
    (false, dyadic, false)
}

fn det_i64(a: &[Vec<i64>]) -> i64 {
    match a.len() {
        1 => a[0][0],
        2 => a[0][0] * a[1][1] - a[0][1] * a[1][0],
        3 => {
            a[0][0] * (a[1][1] * a[2][2] - a[1][2] * a[2][1]) - a[0][1] * (a[1][0] * a[2][2] - a[1][2] * a[2][0])
                + a[0][2] * (a[1][0] * a[2][1] - a[1][1] * a[2][0])
        }
        _ => unreachable!(),
    }
}

// ---- checks on one real system ----------------------------------------------------------------

struct RealCheck {
    max_mult: f64,
    comp_ratio: f64, // max_i |r_i| / (n eps (|L||U||x|)_i)
    norm_ratio: f64, // ||r|| / (n eps ||A|| ||x||)
    swaps: usize,
}

/// Factor A (must succeed), solve A x = b, return quality measures. Err(msg) = violation text.
fn check_real(a: &[Vec<f64>], b: &[f64]) -> Result<RealCheck, (String, String)> {
    let n = a.len();
    let mut m = mat_from(a);
    let mut ip = vec![usize::MAX; n];
    if let Err(e) = lu_decomp(&mut m, &mut ip) {
        return Err(("nonsingular_rejected".into(), format!("lu_decomp returned {:?} for a nonsingular matrix", e)));
    }
    // multipliers and L in final row order
    let mut max_mult: f64 = 0.0;
    let mut l = vec![vec![0.0; n]; n];
    for i in 0..n {
        l[i][i] = 1.0;
    }
    let mut swaps = 0;
    for k in 0..n.saturating_sub(1) {
        if ip[k] >= n {
            return Err(("pivot_index".into(), format!("pivot index ip[{}]={} out of range", k, ip[k])));
        }
        if ip[k] != k {
            swaps += 1;
        }
        let mut col: Vec<f64> = (0..n).map(|i| if i > k { -m[(i, k)] } else { 0.0 }).collect();
        for i in k + 1..n {
            max_mult = max_mult.max(col[i].abs());
        }
        for s in k + 1..n.saturating_sub(1) {
            col.swap(s, ip[s]);
        }
        for i in k + 1..n {
            l[i][k] = col[i];
        }
    }
    let mut x = b.to_vec();
    let m_before = m.clone();
    let ip_before = ip.clone();
    lin_solve(&m, &mut x, &ip);
    if m != m_before || ip != ip_before {
        return Err(("solve_modified_factors".into(), "lin_solve modified the factors or the pivot vector".into()));
    }
    if x.iter().any(|v| !v.is_finite()) {
        return Err(("nonfinite_solution".into(), format!("non-finite solution {:?}", x)));
    }
    // residual in double-double
    let mut comp_ratio: f64 = 0.0;
    let mut rnorm: f64 = 0.0;
    let anorm = a.iter().map(|r| r.iter().map(|v| v.abs()).sum::<f64>()).fold(0.0, f64::max);
    let xnorm = x.iter().fold(0.0f64, |mx, v| mx.max(v.abs()));
    // |L||U||x| in the ORIGINAL row order: P A = L U  =>  row perm
    // final position i holds original row perm[i]
    let mut perm: Vec<usize> = (0..n).collect();
    for k in 0..n.saturating_sub(1) {
        perm.swap(k, ip[k]);
    }
    let mut ux = vec![0.0; n];
    for i in 0..n {
        for j in i..n {
            ux[i] += m[(i, j)].abs() * x[j].abs();
        }
    }
    for i in 0..n {
        let mut lux = 0.0;
        for k in 0..=i {
            lux += l[i][k].abs() * ux[k];
        }
        let orig = perm[i];
        let mut r = DD::new(-b[orig]);
        for j in 0..n {
            r.add_prod(a[orig][j], x[j]);
        }
        let rv = r.value().abs();
        rnorm = rnorm.max(rv);
        let denom = n as f64 * EPS * lux;
        if denom > 0.0 {
            comp_ratio = comp_ratio.max(rv / denom);
        } else if rv > 0.0 {
            comp_ratio = f64::INFINITY;
        }
    }
    let norm_ratio = if anorm * xnorm > 0.0 { rnorm / (n as f64 * EPS * anorm * xnorm) } else { 0.0 };
    Ok(RealCheck { max_mult, comp_ratio, norm_ratio, swaps })
}

// ---- complex -----------------------------------------------------------------------------------

fn cabs(re: f64, im: f64) -> f64 {
    re.hypot(im)
}

struct CplxCheck {
    max_mult: f64,
    comp_ratio: f64,
    norm_ratio: f64,
    swaps: usize,
}

fn check_complex(ar: &[Vec<f64>], ai: &[Vec<f64>], br: &[f64], bi: &[f64]) -> Result<CplxCheck, (String, String)> {
    let n = ar.len();
    let mut mr = mat_from(ar);
    let mut mi = mat_from(ai);
    let mut ip = vec![usize::MAX; n];
    if let Err(e) = lu_decomp_complex(&mut mr, &mut mi, &mut ip) {
        return Err(("nonsingular_rejected".into(), format!("lu_decomp_complex returned {:?} for a nonsingular matrix", e)));
    }
    let mut max_mult: f64 = 0.0;
    let mut l = vec![vec![0.0; n]; n]; // moduli
    for i in 0..n {
        l[i][i] = 1.0;
    }
    let mut swaps = 0;
    for k in 0..n.saturating_sub(1) {
        if ip[k] >= n {
            return Err(("pivot_index".into(), format!("pivot index ip[{}]={} out of range", k, ip[k])));
        }
        if ip[k] != k {
            swaps += 1;
        }
        let mut col: Vec<f64> = (0..n).map(|i| if i > k { cabs(mr[(i, k)], mi[(i, k)]) } else { 0.0 }).collect();
        for i in k + 1..n {
            max_mult = max_mult.max(col[i]);
        }
        for s in k + 1..n.saturating_sub(1) {
            col.swap(s, ip[s]);
        }
        for i in k + 1..n {
            l[i][k] = col[i];
        }
    }
    let mut xr = br.to_vec();
    let mut xi = bi.to_vec();
    let (mr0, mi0, ip0) = (mr.clone(), mi.clone(), ip.clone());
    lin_solve_complex(&mr, &mi, &mut xr, &mut xi, &ip);
    if mr != mr0 || mi != mi0 || ip != ip0 {
        return Err(("solve_modified_factors".into(), "lin_solve_complex modified the factors".into()));
    }
    if xr.iter().chain(xi.iter()).any(|v| !v.is_finite()) {
        return Err(("nonfinite_solution".into(), "non-finite complex solution".into()));
    }
    let mut perm: Vec<usize> = (0..n).collect();
    for k in 0..n.saturating_sub(1) {
        perm.swap(k, ip[k]);
    }
    let xabs: Vec<f64> = (0..n).map(|j| cabs(xr[j], xi[j])).collect();
    let mut ux = vec![0.0; n];
    for i in 0..n {
        for j in i..n {
            ux[i] += cabs(mr[(i, j)], mi[(i, j)]) * xabs[j];
        }
    }
    let mut comp_ratio: f64 = 0.0;
    let mut rnorm: f64 = 0.0;
    let anorm = (0..n).map(|i| (0..n).map(|j| cabs(ar[i][j], ai[i][j])).sum::<f64>()).fold(0.0, f64::max);
    let xnorm = xabs.iter().cloned().fold(0.0, f64::max);
    for i in 0..n {
        let mut lux = 0.0;
        for k in 0..=i {
            lux += l[i][k] * ux[k];
        }
        let o = perm[i];
        let mut rr = DD::new(-br[o]);
        let mut ri = DD::new(-bi[o]);
        for j in 0..n {
            rr.add_prod(ar[o][j], xr[j]);
            rr.add_prod(-ai[o][j], xi[j]);
            ri.add_prod(ar[o][j], xi[j]);
            ri.add_prod(ai[o][j], xr[j]);
        }
        let rv = cabs(rr.value(), ri.value());
        rnorm = rnorm.max(rv);
        let denom = n as f64 * EPS * lux;
        if denom > 0.0 {
            comp_ratio = comp_ratio.max(rv / denom);
        } else if rv > 0.0 {
            comp_ratio = f64::INFINITY;
        }
    }
    let norm_ratio = if anorm * xnorm > 0.0 { rnorm / (n as f64 * EPS * anorm * xnorm) } else { 0.0 };
    Ok(CplxCheck { max_mult, comp_ratio, norm_ratio, swaps })
}

// ---- generators --------------------------------------------------------------------------------

fn rand_matrix(rng: &mut Rng, n: usize, kind: usize) -> (Vec<Vec<f64>>, &'static str) {
    let mut a = vec![vec![0.0; n]; n];
    match kind {
        0 => {
            for i in 0..n {
                for j in 0..n {
                    a[i][j] = rng.range(-1.0, 1.0);
                }
            }
            (a, "dense")
        }
        1 => {
            // entries over six decades
            for i in 0..n {
                for j in 0..n {
                    a[i][j] = rng.sign() * rng.logu(1e-3, 1e3);
                }
            }
            (a, "wide_range")
        }
        2 => {
            // sparse, strictly diagonally dominant after a row permutation => nonsingular
            for i in 0..n {
                let mut s = 0.0;
                for j in 0..n {
                    if i != j && rng.chance(0.35) {
                        a[i][j] = rng.range(-1.0, 1.0);
                        s += a[i][j].abs();
                    }
                }
                a[i][i] = rng.sign() * (s + rng.range(0.1, 1.0));
            }
            let mut p: Vec<usize> = (0..n).collect();
            for i in (1..n).rev() {
                p.swap(i, rng.below(i + 1));
            }
            let b: Vec<Vec<f64>> = p.iter().map(|&i| a[i].clone()).collect();
            (b, "sparse_permuted_dominant")
        }
        3 => {
            // graded: D1 * dense * D2 with powers of two (exact scalings)
            for i in 0..n {
                for j in 0..n {
                    a[i][j] = rng.range(-1.0, 1.0);
                }
            }
            let d1: Vec<i32> = (0..n).map(|_| rng.int(-30, 30) as i32).collect();
            let d2: Vec<i32> = (0..n).map(|_| rng.int(-30, 30) as i32).collect();
            for i in 0..n {
                for j in 0..n {
                    a[i][j] *= (2.0f64).powi(d1[i] + d2[j]);
                }
            }
            (a, "graded")
        }
        4 => {
            // permuted triangular with nonzero diagonal
            let lower = rng.bool();
            for i in 0..n {
                for j in 0..n {
                    if (lower && j < i) || (!lower && j > i) {
                        if rng.chance(0.7) {
                            a[i][j] = rng.range(-2.0, 2.0);
                        }
                    }
                }
                a[i][i] = rng.sign() * rng.range(0.2, 2.0);
            }
            let mut p: Vec<usize> = (0..n).collect();
            for i in (1..n).rev() {
                p.swap(i, rng.below(i + 1));
            }
            let b: Vec<Vec<f64>> = p.iter().map(|&i| a[i].clone()).collect();
            (b, "permuted_triangular")
        }
        _ => {
            // near-tied pivots: columns with entries of nearly equal magnitude
            for i in 0..n {
                for j in 0..n {
                    a[i][j] = rng.sign() * (1.0 + rng.range(-1.0, 1.0) * 1e-13) * if rng.chance(0.5) { 1.0 } else { rng.range(0.2, 1.0) };
                }
            }
            // make it safely nonsingular: add a random diagonal shift
            for i in 0..n {
                a[i][i] += rng.sign() * rng.range(1.5, 3.0);
            }
            (a, "near_tied")
        }
    }
}

pub fn run(ctx: &Ctx) -> (Report, Meta) {
    let g_comp = 8.0; // |r|_i <= 8 n eps (|L||U||x|)_i
    let g_norm = 64.0; // ||r|| <= 64 n^2 eps rho ||A|| ||x||  (checked as norm_ratio <= 64 n rho)
    let meta = Meta::new(
        "exhaustive small-integer matrices (1x1, 2x2 over {-2..2}; 3x3 over {-1..2} quick / {-2..2} thorough) x 3 right-hand sides, plus random real and complex systems n=1..12 of six structural kinds, plus singular constructions (zero column, zero row, two columns supported on one row) and shape/pivot-length errors; a case is non-trivial when the matrix is nonsingular with n>=2 and the factorisation performed at least one row exchange; distinctness by hash of the matrix entries",
    )
    .assume("double-double residual evaluation (TwoSum/TwoProduct with fma) is accurate to ~1e-30 relative")
    .assume("Higham's componentwise backward error bound for GE with row interchanges; gamma taken as 8 n eps (rigorous constant is 3n u/(1-3n u), u = eps/2)")
    .assume("matrix entries kept within 2^±200 so the complex division denominators cannot over/underflow")
    .thresholds(json!({"componentwise_gamma_over_n_eps": g_comp, "normwise_factor": g_norm, "real_multiplier_max": 1.0, "complex_multiplier_max": "sqrt(2)*(1+8eps)"}))
    .floor("real_systems_solved", 1000)
    .floor("complex_systems_solved", 300)
    .floor("singular_rejected", 100)
    .floor("row_exchanges_seen", 100);

    // ---------- part 1: exhaustive small integer matrices ----------
    let vals3: Vec<i64> = if ctx.thorough() { vec![-2, -1, 0, 1, 2] } else { vec![-1, 0, 1, 2] };
    let vals12: Vec<i64> = vec![-2, -1, 0, 1, 2];
    let mut small: Vec<Vec<Vec<i64>>> = Vec::new();
    for &a in &vals12 {
        small.push(vec![vec![a]]);
    }
    let k = vals12.len();
    for idx in 0..k.pow(4) {
        let mut v = idx;
        let mut m = vec![vec![0i64; 2]; 2];
        for i in 0..2 {
            for j in 0..2 {
                m[i][j] = vals12[v % k];
                v /= k;
            }
        }
        small.push(m);
    }
    let n_small12 = small.len();
    let k3 = vals3.len();
    let n3 = k3.pow(9);
    let total_small = n_small12 + n3;
    let chunk = 4096;
    let nchunks = (total_small + chunk - 1) / chunk;
    let small_ref = &small;
    let vals3_ref = &vals3;
    let mut rep = par_for(nchunks, "C16", |ci, rep| {
        for idx in ci * chunk..((ci + 1) * chunk).min(total_small) {
            let case_id = format!("small/{}", idx);
            if !ctx.want(&case_id) {
                continue;
            }
            let mi: Vec<Vec<i64>> = if idx < n_small12 {
                small_ref[idx].clone()
            } else {
                let mut v = idx - n_small12;
                let mut m = vec![vec![0i64; 3]; 3];
                for i in 0..3 {
                    for j in 0..3 {
                        m[i][j] = vals3_ref[v % k3];
                        v /= k3;
                    }
                }
                m
            };
            let n = mi.len();
            let a: Vec<Vec<f64>> = mi.iter().map(|r| r.iter().map(|&v| v as f64).collect()).collect();
            let det = det_i64(&mi);
            let (zero_col, dyadic, _) = exact_ge(&mi);
            rep.eval();
            rep.count("small_integer_matrices", 1);
            let case = json!({"matrix": mi});
            let r = std::panic::catch_unwind(|| {
                let mut m = mat_from(&a);
                let mut ip = vec![0usize; n];
                let r = lu_decomp(&mut m, &mut ip);
                (r.map_err(|e| (is_singular_err(&e), format!("{:?}", e))), m, ip)
            });
            let (res, _m, _ip) = match r {
                Ok(v) => v,
                Err(p) => {
                    rep.violate("C16/no_panic/real/small_integer", format!("lu_decomp panicked: {}", crate::probe::panic_message(&p)), &case_id, case);
                    continue;
                }
            };
            if det == 0 {
                if zero_col && dyadic {
                    rep.count("singular_exact_cases", 1);
                    match res {
                        Err((true, _)) => rep.count("singular_rejected", 1),
                        Err((false, e)) => rep.violate("C16/singular_wrong_error/real/small_integer", format!("singular matrix rejected with {} instead of SingularMatrix", e), &case_id, case),
                        Ok(()) => rep.violate("C16/singular_accepted/real/small_integer", "matrix with an exactly zero pivot column was factorised without error".into(), &case_id, case),
                    }
                } else {
                    rep.inconclusive("singular_but_elimination_not_exact_in_floating_point");
                }
                continue;
            }
            // nonsingular
            if let Err((_, e)) = res {
                rep.violate("C16/nonsingular_rejected/real/small_integer", format!("nonsingular integer matrix (det {}) rejected: {}", det, e), &case_id, case);
                continue;
            }
            for rhs in 0..3 {
                let xt: Vec<f64> = (0..n).map(|i| ((i as i64 + 1) * (rhs as i64 * 2 - 1) + rhs as i64) as f64).collect();
                let b: Vec<f64> = (0..n).map(|i| (0..n).map(|j| a[i][j] * xt[j]).sum()).collect();
                match std::panic::catch_unwind(|| check_real(&a, &b)) {
                    Err(p) => rep.violate("C16/no_panic/real/small_integer", format!("panic: {}", crate::probe::panic_message(&p)), &case_id, case.clone()),
                    Ok(Err((cl, msg))) => rep.violate(&format!("C16/{}/real/small_integer", cl), msg, &case_id, case.clone()),
                    Ok(Ok(c)) => {
                        rep.count("real_systems_solved", 1);
                        rep.worst("real_max_multiplier", c.max_mult);
                        rep.worst("real_componentwise_residual_over_n_eps_LUx", c.comp_ratio);
                        rep.worst("real_normwise_residual_over_n_eps_A_x", c.norm_ratio);
                        rep.count("row_exchanges_seen", c.swaps as u64);
                        if n >= 2 && c.swaps > 0 {
                            rep.nontrivial(hash_f64s(&a.concat()));
                        }
                        if c.max_mult > 1.0 {
                            rep.violate("C16/multiplier_gt_1/real/small_integer", format!("stored multiplier of magnitude {} > 1", c.max_mult), &case_id, case.clone());
                        }
                        if c.comp_ratio > g_comp {
                            rep.violate("C16/componentwise_residual/real/small_integer", format!("|Ax-b|_i = {:.3} x n eps (|L||U||x|)_i exceeds {}", c.comp_ratio, g_comp), &case_id, case.clone());
                        }
                    }
                }
            }
            if idx % 50021 == 7 {
                rep.sample(json!({"kind": "small_integer", "matrix": mi, "det": det}));
            }
        }
    });
    rep.exhaustive = Some(true);

    // ---------- part 2: random real / complex ----------
    let nrand = ctx.size(600_000, 30_000_000);
    let rep2 = par_for(nrand, "C16", |i, rep| {
        let case_id = format!("rand/{}", i);
        if !ctx.want(&case_id) {
            return;
        }
        let mut rng = Rng::derive(ctx.seed, 16, i as u64);
        let n = 1 + rng.below(12);
        let kind = rng.below(6);
        let complex = i % 3 == 2;
        rep.eval();
        if !complex {
            let (a, kname) = rand_matrix(&mut rng, n, kind);
            let b: Vec<f64> = (0..n).map(|_| rng.range(-1.0, 1.0) * (2.0f64).powi(rng.int(-8, 8) as i32)).collect();
            let case = json!({"n": n, "kind": kname, "a": a, "b": b});
            // storage independence of the factorisation: Banded with full bandwidth holds the same entries
            match std::panic::catch_unwind(|| check_real(&a, &b)) {
                Err(p) => rep.violate(&format!("C16/no_panic/real/{}", kname), format!("panic: {}", crate::probe::panic_message(&p)), &case_id, case),
                Ok(Err((cl, msg))) => rep.violate(&format!("C16/{}/real/{}", cl, kname), msg, &case_id, case),
                Ok(Ok(c)) => {
                    rep.count("real_systems_solved", 1);
                    rep.count(&format!("real_kind_{}", kname), 1);
                    rep.worst("real_max_multiplier", c.max_mult);
                    rep.worst("real_componentwise_residual_over_n_eps_LUx", c.comp_ratio);
                    rep.worst("real_normwise_residual_over_n_eps_A_x", c.norm_ratio);
                    rep.count("row_exchanges_seen", c.swaps as u64);
                    if n >= 2 && c.swaps > 0 {
                        rep.nontrivial(hash_f64s(&a.concat()));
                    }
                    if c.max_mult > 1.0 {
                        rep.violate(&format!("C16/multiplier_gt_1/real/{}", kname), format!("stored multiplier of magnitude {} > 1", c.max_mult), &case_id, case.clone());
                    }
                    if c.comp_ratio > g_comp {
                        rep.violate(&format!("C16/componentwise_residual/real/{}", kname), format!("|Ax-b|_i = {:.3} x n eps (|L||U||x|)_i exceeds {}", c.comp_ratio, g_comp), &case_id, case.clone());
                    }
                    if i % 4001 == 0 {
                        rep.sample(json!({"kind": kname, "n": n, "max_mult": c.max_mult, "comp_ratio": c.comp_ratio, "a_row0": a[0]}));
                    }
                }
            }
        } else {
            let (ar, kname) = rand_matrix(&mut rng, n, kind);
            let (mut ai, _) = rand_matrix(&mut rng, n, if kind == 2 || kind == 4 { 0 } else { kind });
            if kind == 2 || kind == 4 {
                // keep structure-dominated nonsingularity: small imaginary perturbation
                for r in ai.iter_mut() {
                    for v in r.iter_mut() {
                        *v *= 0.05;
                    }
                }
            }
            if kind == 3 {
                // graded: give the imaginary part the same scaling pattern as the real part
                for i2 in 0..n {
                    for j2 in 0..n {
                        let sc = if ar[i2][j2] != 0.0 { (2.0f64).powi(ar[i2][j2].abs().log2().round() as i32) } else { 1.0 };
                        ai[i2][j2] = rng.range(-1.0, 1.0) * sc;
                    }
                }
            }
            let br: Vec<f64> = (0..n).map(|_| rng.range(-1.0, 1.0)).collect();
            let bi: Vec<f64> = (0..n).map(|_| rng.range(-1.0, 1.0)).collect();
            let case = json!({"n": n, "kind": kname, "ar": ar, "ai": ai, "br": br, "bi": bi});
            match std::panic::catch_unwind(|| check_complex(&ar, &ai, &br, &bi)) {
                Err(p) => rep.violate(&format!("C16/no_panic/complex/{}", kname), format!("panic: {}", crate::probe::panic_message(&p)), &case_id, case),
                Ok(Err((cl, msg))) => {
                    if cl == "nonsingular_rejected" && kind != 2 && kind != 4 && kind != 5 {
                        // a random complex matrix is nonsingular with probability one; a rejection is a finding
                        rep.violate(&format!("C16/{}/complex/{}", cl, kname), msg, &case_id, case)
                    } else {
                        rep.violate(&format!("C16/{}/complex/{}", cl, kname), msg, &case_id, case)
                    }
                }
                Ok(Ok(c)) => {
                    rep.count("complex_systems_solved", 1);
                    rep.worst("complex_max_multiplier_modulus", c.max_mult);
                    rep.worst("complex_componentwise_residual_over_n_eps_LUx", c.comp_ratio);
                    rep.worst("complex_normwise_residual_over_n_eps_A_x", c.norm_ratio);
                    rep.count("row_exchanges_seen", c.swaps as u64);
                    if n >= 2 && c.swaps > 0 {
                        rep.nontrivial(hash_f64s(&ar.concat()) ^ hash_f64s(&ai.concat()).rotate_left(17));
                    }
                    if c.max_mult > std::f64::consts::SQRT_2 * (1.0 + 8.0 * EPS) {
                        rep.violate(&format!("C16/multiplier_gt_sqrt2/complex/{}", kname), format!("multiplier modulus {} > sqrt 2", c.max_mult), &case_id, case.clone());
                    }
                    if c.comp_ratio > 2.0 * g_comp {
                        rep.violate(&format!("C16/componentwise_residual/complex/{}", kname), format!("|Ax-b|_i = {:.3} x n eps (|L||U||x|)_i exceeds {}", c.comp_ratio, 2.0 * g_comp), &case_id, case.clone());
                    }
                }
            }
        }
    });
    rep.merge(rep2);

    // ---------- part 3: singular constructions and argument errors ----------
    let nsing = ctx.size(80_000, 3_000_000);
    let rep3 = par_for(nsing, "C16", |i, rep| {
        let case_id = format!("sing/{}", i);
        if !ctx.want(&case_id) {
            return;
        }
        let mut rng = Rng::derive(ctx.seed, 1616, i as u64);
        let n = 2 + rng.below(11);
        let k0 = rng.below(2);
        let (mut a, _) = rand_matrix(&mut rng, n, k0);
        let which = i % 5;
        let cname;
        match which {
            0 => {
                let c = rng.below(n);
                for r in a.iter_mut() {
                    r[c] = 0.0;
                }
                cname = "zero_column";
            }
            1 => {
                let r = rng.below(n);
                for v in a[r].iter_mut() {
                    *v = 0.0;
                }
                cname = "zero_row";
            }
            2 => {
                // structurally singular: columns 0 and 1 are non-zero only in one common row, so
                // after the first elimination step (all multipliers exactly 0) column 1 is exactly zero
                let r = rng.below(n);
                for i2 in 0..n {
                    if i2 != r {
                        a[i2][0] = 0.0;
                        a[i2][1] = 0.0;
                    }
                }
                if a[r][0] == 0.0 {
                    a[r][0] = 1.0;
                }
                cname = "structurally_singular";
            }
            3 => cname = "nonsquare",
            _ => cname = "pivot_len",
        }
        rep.eval();
        let case = json!({"n": n, "construction": cname, "a": a});
        let complex = rng.bool();
        let res = std::panic::catch_unwind(|| {
            if which == 3 {
                let mut m = Matrix::zeros(n, n + 1);
                let mut ip = vec![0usize; n];
                if complex {
                    let mut m2 = Matrix::zeros(n, n + 1);
                    lu_decomp_complex(&mut m, &mut m2, &mut ip)
                } else {
                    lu_decomp(&mut m, &mut ip)
                }
            } else if which == 4 {
                let mut m = mat_from(&a);
                let mut ip = vec![0usize; if rng.clone().bool() { n + 1 } else { n - 1 }];
                if complex {
                    let mut m2 = mat_from(&a);
                    lu_decomp_complex(&mut m, &mut m2, &mut ip)
                } else {
                    lu_decomp(&mut m, &mut ip)
                }
            } else {
                let mut m = mat_from(&a);
                let mut ip = vec![0usize; n];
                if complex {
                    // imaginary part: zero (same singular structure) or same-structure copy
                    let mut z = Matrix::zeros(n, n);
                    if which == 2 || which == 1 || which == 0 {
                        // scaled copy keeps exact singular structure: (1 + 0.5 i) * A
                        for r in 0..n {
                            for c in 0..n {
                                z[(r, c)] = 0.5 * a[r][c];
                            }
                        }
                    }
                    lu_decomp_complex(&mut m, &mut z, &mut ip)
                } else {
                    lu_decomp(&mut m, &mut ip)
                }
            }
        });
        let fam = if complex { "complex" } else { "real" };
        match res {
            Err(p) => rep.violate(&format!("C16/no_panic/{}/{}", fam, cname), format!("panic: {}", crate::probe::panic_message(&p)), &case_id, case),
            Ok(Ok(())) => rep.violate(&format!("C16/invalid_accepted/{}/{}", fam, cname), format!("{} input was factorised without error", cname), &case_id, case),
            Ok(Err(e)) => {
                use ivp::error::{Error, LinearAlgebraError};
                let ok = match (which, &e) {
                    (3, Error::LinearAlgebra(LinearAlgebraError::NonSquareMatrix { .. })) => true,
                    (4, Error::LinearAlgebra(LinearAlgebraError::PivotSizeMismatch { .. })) => true,
                    (0..=2, Error::LinearAlgebra(LinearAlgebraError::SingularMatrix)) => true,
                    _ => false,
                };
                if ok {
                    if which <= 2 {
                        rep.count("singular_rejected", 1);
                    } else {
                        rep.count("argument_errors_rejected", 1);
                    }
                } else {
                    rep.violate(&format!("C16/wrong_error/{}/{}", fam, cname), format!("{} input rejected with {:?}", cname, e), &case_id, case);
                }
            }
        }
    });
    rep.merge(rep3);
    (rep, meta)
}
