//! C17 — Matrix values do not depend on the storage scheme.
//! Oracle: a dense Vec<Vec<f64>> model with the textbook definition of every operation;
//! every operation on the real Matrix runs under catch_unwind.

use crate::ctx::{Ctx, Meta};
use crate::report::Report;
use crate::rng::Rng;
use crate::util::{hash_str, par_for};
use ivp::prelude::*;
use ivp::{banded_matrix, matrix};
use serde_json::{json, Value};
use std::panic::{catch_unwind, AssertUnwindSafe};

type Dense = Vec<Vec<f64>>;

#[derive(Clone, Debug, PartialEq)]
enum St {
    Id,
    Full,
    Band(usize, usize),
}
impl St {
    fn name(&self) -> String {
        match self {
            St::Id => "Identity".into(),
            St::Full => "Full".into(),
            St::Band(ml, mu) => format!("Banded({},{})", ml, mu),
        }
    }
    fn class(&self) -> &'static str {
        match self {
            St::Id => "Identity",
            St::Full => "Full",
            St::Band(..) => "Banded",
        }
    }
    fn in_band(&self, i: usize, j: usize) -> bool {
        match self {
            St::Id => false,
            St::Full => true,
            St::Band(ml, mu) => {
                let k = i as isize - j as isize;
                k <= *ml as isize && -k <= *mu as isize
            }
        }
    }
}

fn val(tag: u64, i: usize, j: usize) -> f64 {
    // distinct, exactly representable, sign-mixed values
    let h = (tag.wrapping_mul(31) + (i as u64) * 17 + (j as u64) * 5) % 23;
    (h as f64 - 11.0) * 0.25 + 0.125 * ((i + 2 * j) % 3) as f64 + if (i + j) % 2 == 0 { 1.0 } else { -1.0 }
}

/// Build a matrix of storage `st` filled (in band) with val(tag, ..) and its dense model.
fn build(n: usize, st: &St, tag: u64) -> (Matrix, Dense) {
    let mut d = vec![vec![0.0; n]; n];
    match st {
        St::Id => {
            for i in 0..n {
                d[i][i] = 1.0;
            }
            (Matrix::identity(n), d)
        }
        St::Full => {
            let mut m = Matrix::zeros(n, n);
            for i in 0..n {
                for j in 0..n {
                    let v = val(tag, i, j);
                    m[(i, j)] = v;
                    d[i][j] = v;
                }
            }
            (m, d)
        }
        St::Band(ml, mu) => {
            let mut m = Matrix::banded(n, *ml, *mu);
            for i in 0..n {
                for j in 0..n {
                    if st.in_band(i, j) {
                        let v = val(tag, i, j);
                        m[(i, j)] = v;
                        d[i][j] = v;
                    }
                }
            }
            (m, d)
        }
    }
}

fn read_all(m: &Matrix, n: usize) -> Result<Dense, String> {
    let r = catch_unwind(AssertUnwindSafe(|| {
        let mut d = vec![vec![0.0; n]; n];
        for i in 0..n {
            for j in 0..n {
                d[i][j] = m[(i, j)];
            }
        }
        d
    }));
    r.map_err(|p| crate::probe::panic_message(&p))
}

fn first_diff(a: &Dense, b: &Dense) -> Option<(usize, usize, f64, f64)> {
    for i in 0..a.len() {
        for j in 0..a.len() {
            if !(a[i][j] == b[i][j]) {
                return Some((i, j, a[i][j], b[i][j]));
            }
        }
    }
    None
}

fn dense_is_identity(d: &Dense) -> bool {
    for i in 0..d.len() {
        for j in 0..d.len() {
            if (i == j && d[i][j] != 1.0) || (i != j && d[i][j] != 0.0) {
                return false;
            }
        }
    }
    true
}

fn storages(n: usize, wide: bool) -> Vec<St> {
    let mut v = vec![St::Id, St::Full];
    let top = if wide { n } else { n.saturating_sub(1) };
    for ml in 0..=top {
        for mu in 0..=top {
            v.push(St::Band(ml, mu));
        }
    }
    v
}

const SCALARS: [f64; 5] = [0.0, 1.0, -2.5, 1e-300, 3.0];

fn check_result(rep: &mut Report, clause: &str, opname: &str, classes: &str, got: Result<Matrix, String>, want: &Dense, case_id: &str, case: &Value) {
    let n = want.len();
    match got {
        Err(p) => rep.violate(&format!("C17/no_panic/{}/{}", opname, classes), format!("{} panicked: {}", opname, p), case_id, case.clone()),
        Ok(m) => match read_all(&m, n) {
            Err(p) => rep.violate(&format!("C17/result_unreadable/{}/{}", opname, classes), format!("reading the result of {} panicked: {}", opname, p), case_id, case.clone()),
            Ok(d) => {
                rep.count("entry_comparisons", (n * n) as u64);
                if let Some((i, j, g, w)) = first_diff(&d, want) {
                    rep.violate(
                        &format!("C17/{}/{}/{}", clause, opname, classes),
                        format!("{}: entry ({},{}) is {} but the dense result is {}", opname, i, j, g, w),
                        case_id,
                        case.clone(),
                    );
                }
                let isid = catch_unwind(AssertUnwindSafe(|| m.is_identity()));
                match isid {
                    Ok(b) => {
                        if b != dense_is_identity(want) {
                            rep.violate(&format!("C17/is_identity/{}/{}", opname, classes), format!("is_identity() = {} but dense definition says {}", b, !b), case_id, case.clone());
                        }
                    }
                    Err(p) => rep.violate(&format!("C17/no_panic/is_identity/{}", classes), format!("is_identity panicked: {}", crate::probe::panic_message(&p)), case_id, case.clone()),
                }
            }
        },
    }
}

pub fn run(ctx: &Ctx) -> (Report, Meta) {
    let meta = Meta::new(
        "exhaustive enumeration: sizes n=1..8, storages {Identity, Full, Banded(ml,mu) for all ml,mu in 0..n-1 (0..n for n<=5)}, all ordered operand-storage pairs for + - += -= (value and reference forms), 5 scalars for component_add/sub/mul(_mut), every constructor incl. the compiling macro forms, every in-band / out-of-band / Identity write; is_identity on a unit diagonal with every storable position perturbed in turn; plus random operation sequences (length <= 12) against the dense model; non-trivial = operand pair with different storage class or different bandwidths (distinct by n, storages)",
    )
    .assume("every Matrix operation is a single IEEE operation per entry, so results are compared with ==")
    .assume("the bracket form matrix![[..],[..]] does not compile and is therefore not executable (reported in DESIGN.md only)")
    .floor("binary_op_results_checked", 5000)
    .floor("scalar_op_results_checked", 2000)
    .floor("constructor_results_checked", 200)
    .floor("writes_checked", 2000)
    .floor("out_of_band_write_panics_seen", 200);

    let nmax_full = ctx.size(6, 8);
    // ---------------- exhaustive part: one job per (n, storage A) ----------------
    let mut jobs: Vec<(usize, St)> = Vec::new();
    for n in 1..=8usize {
        let wide = n <= 5;
        let all = storages(n, wide);
        if n <= nmax_full {
            for s in all {
                jobs.push((n, s));
            }
        } else {
            // quick tier: sampled bandwidths for the larger sizes
            let mut rng = Rng::derive(ctx.seed, 17, n as u64);
            jobs.push((n, St::Id));
            jobs.push((n, St::Full));
            for _ in 0..10 {
                jobs.push((n, St::Band(rng.below(n), rng.below(n))));
            }
        }
    }
    let jobs_ref = &jobs;
    let mut rep = par_for(jobs.len(), "C17", |ji, rep| {
        let (n, sa) = jobs_ref[ji].clone();
        let case_base = format!("exh/{}/{}", n, sa.name());
        if !ctx.want(&case_base) {
            return;
        }
        let case = json!({"n": n, "storage_a": sa.name()});
        // --- reads of a freshly built matrix
        let (a, da) = build(n, &sa, 1);
        rep.eval();
        check_result(rep, "read", "build_and_read", sa.class(), Ok(a.clone()), &da, &case_base, &case);
        rep.count("constructor_results_checked", 1);

        // --- writes: in band update exactly the addressed entry; out of band / Identity panic
        for i in 0..n {
            for j in 0..n {
                let mut m = a.clone();
                let inb = sa.in_band(i, j);
                let r = catch_unwind(AssertUnwindSafe(|| {
                    m[(i, j)] = 77.5;
                }));
                rep.eval();
                rep.count("writes_checked", 1);
                if inb {
                    match r {
                        Err(p) => rep.violate(&format!("C17/no_panic/write_in_band/{}", sa.class()), format!("in-band write ({},{}) panicked: {}", i, j, crate::probe::panic_message(&p)), &case_base, case.clone()),
                        Ok(()) => {
                            let mut want = da.clone();
                            want[i][j] = 77.5;
                            match read_all(&m, n) {
                                Ok(d) => {
                                    if let Some((p, q, g, w)) = first_diff(&d, &want) {
                                        rep.violate(&format!("C17/write_exact/write_in_band/{}", sa.class()), format!("write to ({},{}) left entry ({},{}) = {} (expected {})", i, j, p, q, g, w), &case_base, case.clone());
                                    }
                                }
                                Err(p) => rep.violate(&format!("C17/result_unreadable/write_in_band/{}", sa.class()), p, &case_base, case.clone()),
                            }
                        }
                    }
                } else {
                    match r {
                        Ok(()) => rep.violate(&format!("C17/write_must_panic/write_out_of_band/{}", sa.class()), format!("write to ({},{}) outside the band / into Identity did not panic", i, j), &case_base, case.clone()),
                        Err(_) => {
                            rep.count("out_of_band_write_panics_seen", 1);
                            // data must be uncorrupted
                            if let Ok(d) = read_all(&m, n) {
                                if first_diff(&d, &da).is_some() {
                                    rep.violate(&format!("C17/write_corrupts/write_out_of_band/{}", sa.class()), format!("rejected write to ({},{}) changed the matrix", i, j), &case_base, case.clone());
                                }
                            }
                        }
                    }
                }
            }
        }

        // --- scalar operations
        for &s in &SCALARS {
            let c2 = json!({"n": n, "storage_a": sa.name(), "scalar": s});
            let want_add: Dense = da.iter().map(|r| r.iter().map(|v| v + s).collect()).collect();
            let want_sub: Dense = da.iter().map(|r| r.iter().map(|v| v - s).collect()).collect();
            let want_mul: Dense = da.iter().map(|r| r.iter().map(|v| v * s).collect()).collect();
            let a1 = a.clone();
            check_result(rep, "scalar", "component_add", sa.class(), catch_unwind(AssertUnwindSafe(|| a1.component_add(s))).map_err(|p| crate::probe::panic_message(&p)), &want_add, &case_base, &c2);
            let a1 = a.clone();
            check_result(rep, "scalar", "component_sub", sa.class(), catch_unwind(AssertUnwindSafe(|| a1.component_sub(s))).map_err(|p| crate::probe::panic_message(&p)), &want_sub, &case_base, &c2);
            let a1 = a.clone();
            check_result(rep, "scalar", "component_mul", sa.class(), catch_unwind(AssertUnwindSafe(|| a1.component_mul(s))).map_err(|p| crate::probe::panic_message(&p)), &want_mul, &case_base, &c2);
            let mut a1 = a.clone();
            let r = catch_unwind(AssertUnwindSafe(|| {
                a1.component_mul_mut(s);
            }));
            check_result(rep, "scalar", "component_mul_mut", sa.class(), r.map(|_| a1).map_err(|p| crate::probe::panic_message(&p)), &want_mul, &case_base, &c2);
            rep.evals(4);
            rep.count("scalar_op_results_checked", 4);
        }

        // --- binary operations against every storage B of the same size
        let wide = n <= 5;
        let sbs: Vec<St> = if n <= nmax_full {
            storages(n, wide)
        } else {
            let mut rng = Rng::derive(ctx.seed, 1717, (n * 1000 + ji) as u64);
            let mut v = vec![St::Id, St::Full];
            for _ in 0..8 {
                v.push(St::Band(rng.below(n), rng.below(n)));
            }
            v
        };
        for sb in &sbs {
            let (b, db) = build(n, sb, 2);
            let classes = format!("{}x{}", sa.class(), sb.class());
            let c2 = json!({"n": n, "storage_a": sa.name(), "storage_b": sb.name()});
            let want_add: Dense = (0..n).map(|i| (0..n).map(|j| da[i][j] + db[i][j]).collect()).collect();
            let want_sub: Dense = (0..n).map(|i| (0..n).map(|j| da[i][j] - db[i][j]).collect()).collect();
            let (a1, b1) = (a.clone(), b.clone());
            check_result(rep, "binary", "add", &classes, catch_unwind(AssertUnwindSafe(|| a1 + b1)).map_err(|p| crate::probe::panic_message(&p)), &want_add, &case_base, &c2);
            let (a1, b1) = (a.clone(), b.clone());
            check_result(rep, "binary", "sub", &classes, catch_unwind(AssertUnwindSafe(|| a1 - b1)).map_err(|p| crate::probe::panic_message(&p)), &want_sub, &case_base, &c2);
            let (mut a1, b1) = (a.clone(), b.clone());
            let r = catch_unwind(AssertUnwindSafe(|| {
                a1 += b1;
            }));
            check_result(rep, "binary", "add_assign", &classes, r.map(|_| a1).map_err(|p| crate::probe::panic_message(&p)), &want_add, &case_base, &c2);
            let (mut a1, b1) = (a.clone(), b.clone());
            let r = catch_unwind(AssertUnwindSafe(|| {
                a1 -= b1;
            }));
            check_result(rep, "binary", "sub_assign", &classes, r.map(|_| a1).map_err(|p| crate::probe::panic_message(&p)), &want_sub, &case_base, &c2);
            let (mut a1, b1) = (a.clone(), b.clone());
            let r = catch_unwind(AssertUnwindSafe(|| {
                a1 -= &b1;
            }));
            check_result(rep, "binary", "sub_assign_ref", &classes, r.map(|_| a1).map_err(|p| crate::probe::panic_message(&p)), &want_sub, &case_base, &c2);
            rep.evals(5);
            rep.count("binary_op_results_checked", 5);
            if sa.class() != sb.class() || sa != *sb {
                rep.nontrivial(hash_str(&format!("{}|{}|{}", n, sa.name(), sb.name())));
            }
        }
        if ji % 97 == 3 {
            rep.sample(json!({"n": n, "storage_a": sa.name(), "ops": "reads, all writes, 5 scalars x 4 scalar ops, 5 binary ops x all storages B"}));
        }
    });
    rep.exhaustive = Some(ctx.thorough());

    // ---------------- is_identity near the identity ----------------
    // unit diagonal written into Full / Banded storage, then every storable off-diagonal position perturbed in turn
    // (results of arithmetic rarely have a unit diagonal, so the clause above hardly ever sees the interesting side)
    let mut irep = Report::new("C17");
    for n in 1..=8usize {
        let case_id = format!("is_identity/{}", n);
        if !ctx.want(&case_id) {
            continue;
        }
        for st in storages(n, n <= 5) {
            if matches!(st, St::Id) {
                continue;
            }
            let res = catch_unwind(AssertUnwindSafe(|| {
                let mut bad: Vec<String> = Vec::new();
                let mut m = match st {
                    St::Full => Matrix::full(n, n),
                    St::Band(ml, mu) => Matrix::banded(n, ml, mu),
                    St::Id => unreachable!(),
                };
                for i in 0..n {
                    m[(i, i)] = 1.0;
                }
                let mut checks = 1u64;
                if !m.is_identity() {
                    bad.push("unit diagonal, zero elsewhere: is_identity() = false".into());
                }
                for i in 0..n {
                    for j in 0..n {
                        let inband = match st {
                            St::Full => true,
                            St::Band(ml, mu) => (i as isize - j as isize) <= ml as isize && (j as isize - i as isize) <= mu as isize,
                            St::Id => false,
                        };
                        if !inband {
                            continue;
                        }
                        for &v in &[-2.0, 1e-300, -0.0] {
                            let old = m[(i, j)];
                            m[(i, j)] = if i == j { 1.0 + v } else { v };
                            let want = if i == j { 1.0 + v == 1.0 } else { v == 0.0 };
                            checks += 1;
                            if m.is_identity() != want {
                                bad.push(format!("entry ({},{}) set to {:e}: is_identity() = {} but the dense definition says {}", i, j, m[(i, j)], !want, want));
                            }
                            m[(i, j)] = old;
                        }
                    }
                }
                (bad, checks)
            }));
            let case = json!({"n": n, "storage": format!("{:?}", st)});
            match res {
                Ok((bad, checks)) => {
                    irep.evals(checks);
                    irep.count("is_identity_near_identity_checks", checks);
                    if let Some(b) = bad.first() {
                        irep.violate(&format!("C17/is_identity/perturbed_identity/{}", if matches!(st, St::Full) { "Full" } else { "Banded" }), format!("{} ({} disagreements)", b, bad.len()), &case_id, case);
                    }
                }
                Err(p) => irep.violate("C17/no_panic/is_identity/perturbed_identity", crate::probe::panic_message(&p), &case_id, case),
            }
        }
    }
    rep.merge(irep);

    // ---------------- constructors ----------------
    let mut crep = Report::new("C17");
    for n in 1..=8usize {
        let case_id = format!("ctor/{}", n);
        if !ctx.want(&case_id) {
            continue;
        }
        let zero: Dense = vec![vec![0.0; n]; n];
        let mut ident = zero.clone();
        for i in 0..n {
            ident[i][i] = 1.0;
        }
        let data: Vec<f64> = (0..n * n).map(|k| k as f64 + 0.5).collect();
        let dd: Dense = (0..n).map(|i| (0..n).map(|j| data[i * n + j]).collect()).collect();
        let diag: Vec<f64> = (0..n).map(|k| k as f64 - 1.5).collect();
        let mut ddiag = zero.clone();
        for i in 0..n {
            ddiag[i][i] = diag[i];
        }
        let mut ctors: Vec<(&str, Result<Matrix, String>, Dense)> = Vec::new();
        macro_rules! ctor {
            ($name:expr, $e:expr, $want:expr) => {
                ctors.push(($name, catch_unwind(AssertUnwindSafe(|| $e)).map_err(|p| crate::probe::panic_message(&p)), $want));
            };
        }
        ctor!("identity", Matrix::identity(n), ident.clone());
        ctor!("from_vec", Matrix::from_vec(n, n, data.clone()), dd.clone());
        ctor!("from_storage_identity", Matrix::from_storage(n, n, MatrixStorage::Identity), ident.clone());
        ctor!("from_storage_full", Matrix::from_storage(n, n, MatrixStorage::Full), zero.clone());
        ctor!("full", Matrix::full(n, n), zero.clone());
        ctor!("square", Matrix::square(n), zero.clone());
        ctor!("zeros", Matrix::zeros(n, n), zero.clone());
        ctor!("diagonal", Matrix::diagonal(diag.clone()), ddiag.clone());
        ctor!("lower_triangular", Matrix::lower_triangular(n), zero.clone());
        ctor!("upper_triangular", Matrix::upper_triangular(n), zero.clone());
        for ml in 0..=n {
            for mu in 0..=n {
                ctor!("banded", Matrix::banded(n, ml, mu), zero.clone());
                ctor!("from_storage_banded", Matrix::from_storage(n, n, MatrixStorage::Banded { ml, mu }), zero.clone());
            }
        }
        for (name, got, want) in ctors {
            crep.eval();
            crep.count("constructor_results_checked", 1);
            let case = json!({"constructor": name, "n": n});
            check_result(&mut crep, "constructor", name, "ctor", got, &want, &case_id, &case);
        }
        // triangular constructors must accept writes in their triangle
        for lower in [true, false] {
            let r = catch_unwind(AssertUnwindSafe(|| {
                let mut m = if lower { Matrix::lower_triangular(n) } else { Matrix::upper_triangular(n) };
                let mut want = zero.clone();
                for i in 0..n {
                    for j in 0..n {
                        if (lower && j <= i) || (!lower && j >= i) {
                            m[(i, j)] = (i * n + j) as f64 + 1.0;
                            want[i][j] = (i * n + j) as f64 + 1.0;
                        }
                    }
                }
                (m, want)
            }));
            crep.eval();
            crep.count("constructor_results_checked", 1);
            let name = if lower { "lower_triangular_filled" } else { "upper_triangular_filled" };
            match r {
                Ok((m, want)) => check_result(&mut crep, "constructor", name, "ctor", Ok(m), &want, &case_id, &json!({"constructor": name, "n": n})),
                Err(p) => crep.violate(&format!("C17/no_panic/{}/ctor", name), crate::probe::panic_message(&p), &case_id, json!({"constructor": name, "n": n})),
            }
        }
    }
    // macro forms that compile
    {
        let case_id = "ctor/macros";
        if ctx.want(case_id) {
            let m2: Result<Matrix, String> = catch_unwind(|| matrix![1.0, 2.0; 3.0, 4.0]).map_err(|p| crate::probe::panic_message(&p));
            check_result(&mut crep, "constructor", "matrix_macro_semicolon", "ctor", m2, &vec![vec![1.0, 2.0], vec![3.0, 4.0]], case_id, &json!({"constructor": "matrix![a,b;c,d]"}));
            let m3: Result<Matrix, String> = catch_unwind(|| matrix![1.0, 2.0, 3.0; 4.0, 5.0, 6.0; 7.0, 8.0, 9.0]).map_err(|p| crate::probe::panic_message(&p));
            check_result(&mut crep, "constructor", "matrix_macro_semicolon", "ctor", m3, &vec![vec![1.0, 2.0, 3.0], vec![4.0, 5.0, 6.0], vec![7.0, 8.0, 9.0]], case_id, &json!({"constructor": "matrix! 3x3"}));
            let b1: Result<Matrix, String> = catch_unwind(|| banded_matrix!(0 => [1.0, 2.0, 3.0], 1 => [4.0, 5.0], -1 => [6.0, 7.0])).map_err(|p| crate::probe::panic_message(&p));
            check_result(&mut crep, "constructor", "banded_matrix_macro", "ctor", b1, &vec![vec![1.0, 6.0, 0.0], vec![4.0, 2.0, 7.0], vec![0.0, 5.0, 3.0]], case_id, &json!({"constructor": "banded_matrix!(0,1,-1)"}));
            let b2: Result<Matrix, String> = catch_unwind(|| banded_matrix!(-2 => [9.0, 8.0], 0 => [1.0, 1.0, 1.0, 1.0])).map_err(|p| crate::probe::panic_message(&p));
            check_result(
                &mut crep,
                "constructor",
                "banded_matrix_macro",
                "ctor",
                b2,
                &vec![vec![1.0, 0.0, 9.0, 0.0], vec![0.0, 1.0, 0.0, 8.0], vec![0.0, 0.0, 1.0, 0.0], vec![0.0, 0.0, 0.0, 1.0]],
                case_id,
                &json!({"constructor": "banded_matrix!(-2,0)"}),
            );
            crep.evals(4);
            crep.count("constructor_results_checked", 4);
        }
    }
    rep.merge(crep);

    // ---------------- random operation sequences ----------------
    let nseq = ctx.size(80_000, 10_000_000);
    let rep2 = par_for(nseq, "C17", |i, rep| {
        let case_id = format!("seq/{}", i);
        if !ctx.want(&case_id) {
            return;
        }
        let mut rng = Rng::derive(ctx.seed, 170, i as u64);
        let n = 1 + rng.below(8);
        let pick = |rng: &mut Rng| -> St {
            match rng.below(4) {
                0 => St::Id,
                1 => St::Full,
                _ => St::Band(rng.below(n + 1), rng.below(n + 1)),
            }
        };
        let st = pick(&mut rng);
        let (mut m, mut d) = build(n, &st, rng.next_u64() % 1000);
        let mut trace: Vec<String> = vec![format!("build {} n={}", st.name(), n)];
        let len = 1 + rng.below(12);
        for _ in 0..len {
            let op = rng.below(9);
            let r: Result<(), String> = match op {
                0 => {
                    // in-band write according to the *current* storage
                    let i2 = rng.below(n);
                    let j2 = rng.below(n);
                    let cur = match &m.storage {
                        MatrixStorage::Identity => St::Id,
                        MatrixStorage::Full => St::Full,
                        MatrixStorage::Banded { ml, mu } => St::Band(*ml, *mu),
                    };
                    let v = rng.range(-4.0, 4.0);
                    trace.push(format!("write ({},{}) = {} in_band={}", i2, j2, v, cur.in_band(i2, j2)));
                    let r = catch_unwind(AssertUnwindSafe(|| {
                        m[(i2, j2)] = v;
                    }));
                    if cur.in_band(i2, j2) {
                        d[i2][j2] = v;
                        r.map_err(|p| crate::probe::panic_message(&p))
                    } else if r.is_ok() {
                        Err("out-of-band write did not panic".into())
                    } else {
                        Ok(())
                    }
                }
                1 | 2 | 3 | 4 => {
                    let s = *rng.pick(&SCALARS);
                    let mm = m.clone();
                    trace.push(format!("scalar op {} with {}", op, s));
                    let r = catch_unwind(AssertUnwindSafe(|| match op {
                        1 => mm.component_add(s),
                        2 => mm.component_sub(s),
                        3 => mm.component_mul(s),
                        _ => {
                            let mut z = mm;
                            z.component_mul_mut(s);
                            z
                        }
                    }));
                    for row in d.iter_mut() {
                        for v in row.iter_mut() {
                            *v = match op {
                                1 => *v + s,
                                2 => *v - s,
                                _ => *v * s,
                            };
                        }
                    }
                    r.map(|z| m = z).map_err(|p| crate::probe::panic_message(&p))
                }
                _ => {
                    let sb = pick(&mut rng);
                    let (b, db) = build(n, &sb, rng.next_u64() % 1000);
                    trace.push(format!("binary op {} with {}", op, sb.name()));
                    let mm = m.clone();
                    let r = catch_unwind(AssertUnwindSafe(|| match op {
                        5 => mm + b,
                        6 => mm - b,
                        7 => {
                            let mut z = mm;
                            z += b;
                            z
                        }
                        _ => {
                            let mut z = mm;
                            z -= &b;
                            z
                        }
                    }));
                    for i2 in 0..n {
                        for j2 in 0..n {
                            d[i2][j2] = if op == 5 || op == 7 { d[i2][j2] + db[i2][j2] } else { d[i2][j2] - db[i2][j2] };
                        }
                    }
                    r.map(|z| m = z).map_err(|p| crate::probe::panic_message(&p))
                }
            };
            rep.eval();
            rep.count("sequence_ops", 1);
            let case = json!({"n": n, "trace": trace});
            if let Err(e) = r {
                rep.violate("C17/no_panic/sequence/mixed", format!("operation failed: {}", e), &case_id, case);
                return;
            }
            match read_all(&m, n) {
                Err(p) => {
                    rep.violate("C17/result_unreadable/sequence/mixed", p, &case_id, case);
                    return;
                }
                Ok(got) => {
                    if let Some((p, q, g, w)) = first_diff(&got, &d) {
                        rep.violate("C17/sequence/sequence/mixed", format!("after the sequence entry ({},{}) is {} but the dense model has {}", p, q, g, w), &case_id, case);
                        return;
                    }
                }
            }
        }
        rep.nontrivial(hash_str(&trace.join(";")));
        if i % 1999 == 0 {
            rep.sample(json!({"n": n, "sequence": trace}));
        }
    });
    rep.merge(rep2);
    (rep, meta)
}
