//! C18 — reported statistics count what actually happened (probe counts vs Solution counters).

use super::common::*;
use crate::ctx::{Ctx, Meta};
use crate::probe::*;
use crate::report::Report;
use crate::rng::Rng;
use crate::util::par_for;
use ivp::prelude::*;
use serde_json::json;

pub fn run(ctx: &Ctx) -> (Report, Meta) {
    let meta = Meta::new(
        "random bounded problems x 6 methods x tolerances x directions x analytic / finite-difference Jacobian x {plain, t_eval, dense, events, max_steps, max_step} through solve_ivp, plus the low-level builders with a recording SolOut (dense on/off; callback answering Continue, ModifiedSolution with an unchanged state at the initial and at later callbacks, XOut, or no callback at all; automatic or given first step), plus zero-length runs; non-trivial = run with at least one rejected step or one Jacobian evaluation (distinct by scenario hash)",
    )
    .assume("evaluations made while differencing a Jacobian are separated from stepper evaluations by delegating the default Jacobian to an inner IVP under a flag")
    .floor("runs_checked", 500)
    .floor("runs_with_rejections", 50)
    .floor("runs_with_jacobian", 100)
    .floor("low_level_runs_checked", 100)
    .floor("hard_runs_checked", 200);
    let g = GenOpts {
        stiff_for_implicit: true,
        allow_min_step: true,
        allow_t_eval: true,
        allow_events: true,
        allow_terminal: true,
        allow_max_step: true,
        allow_max_steps: true,
        bidirectional_problems: false,
        ..Default::default()
    };
    let nrand = ctx.size(60_000, 6_000_000);
    let rep = par_for(nrand, "C18", |i, rep| {
        let case_id = format!("run/{}", i);
        if !ctx.want(&case_id) {
            return;
        }
        let mut rng = Rng::derive(ctx.seed, 18, i as u64);
        let (mut prob, mut scn) = gen_case(&mut rng, &g);
        // problems with many rejections: discontinuous forcing one time in four
        if i % 4 == 0 {
            prob = crate::problems::Simple::Disc { w: rng.range(1.0, 5.0) };
            scn.y0 = vec![rng.range(-1.0, 1.0)];
            scn.events.clear();
            scn.rtol = Tol::S(scn.rtol.at(0));
            scn.atol = Tol::S(scn.atol.at(0));
            if scn.dir() < 0.0 {
                // damped problem: integrate forward
                let span = (scn.xend - scn.x0).abs();
                scn.xend = scn.x0 + span;
                if let Some(te) = scn.t_eval.as_mut() {
                    for t in te.iter_mut() {
                        *t = scn.x0 + (scn.x0 - *t);
                    }
                }
            }
        } else if scn.dir() < 0.0 && !matches!(prob, crate::problems::Simple::Osc { .. } | crate::problems::Simple::LV { .. } | crate::problems::Simple::Lin3 { .. }) {
            return;
        }
        let m = mname(scn.method);
        let jmode = if !is_implicit(scn.method) { "explicit" } else if scn.user_jac { "user_jac" } else { "fd_jac" };
        let zero_len = i % 61 == 0;
        if zero_len {
            scn.xend = scn.x0;
            scn.t_eval = None;
        }
        let res = run_solve(&prob, &scn, false, false);
        rep.eval();
        let sol = match &res.out {
            Outcome::Ok(s) => s,
            Outcome::Budget => {
                rep.inconclusive("evaluation_budget_exhausted");
                return;
            }
            Outcome::Err(_) => {
                rep.count("config_errors_returned", 1);
                return;
            }
            Outcome::Panic(msg) => {
                rep.violate(&format!("C18/no_panic/{}/{}", m, jmode), format!("panic: {}", msg), &case_id, scn.describe(&prob));
                return;
            }
        };
        rep.count("runs_checked", 1);
        let case = || {
            let mut c = scn.describe(&prob);
            c["reported"] = json!({"nfev": sol.nfev, "njev": sol.njev, "nstep": sol.nstep, "naccpt": sol.naccpt, "nrejct": sol.nrejct, "len_t": sol.t.len(), "status": format!("{:?}", sol.status)});
            c["observed"] = json!({"ode_calls_stepper": res.log.n_ode, "ode_calls_in_jacobian_differencing": res.log.n_ode_jac, "jac_calls": res.log.n_jac});
            c
        };
        if zero_len {
            rep.count("zero_length_runs", 1);
            if sol.nfev + sol.njev + sol.nlu + sol.nstep + sol.naccpt + sol.nrejct != 0 {
                rep.violate(&format!("C18/zero_length_counters/{}/{}", m, jmode), "non-zero counter for the zero-length run".into(), &case_id, case());
            }
            return;
        }
        if sol.nrejct > 0 {
            rep.count("runs_with_rejections", 1);
        }
        if res.log.n_jac > 0 {
            rep.count("runs_with_jacobian", 1);
        }
        if sol.nrejct > 0 || res.log.n_jac > 0 {
            rep.nontrivial(scn_hash(&scn, &prob));
        }
        if sol.nfev as u64 != res.log.n_ode {
            rep.violate(
                &format!("C18/nfev/{}/{}", m, jmode),
                format!("nfev = {} but the stepper evaluated the right-hand side {} times ({} more inside Jacobian differencing)", sol.nfev, res.log.n_ode, res.log.n_ode_jac),
                &case_id,
                case(),
            );
        }
        if sol.njev as u64 != res.log.n_jac {
            rep.violate(&format!("C18/njev/{}/{}", m, jmode), format!("njev = {} but jac was called {} times", sol.njev, res.log.n_jac), &case_id, case());
        }
        if sol.nstep < sol.naccpt {
            rep.violate(&format!("C18/nstep_ge_naccpt/{}/{}", m, jmode), format!("nstep = {} < naccpt = {}", sol.nstep, sol.naccpt), &case_id, case());
        }
        // a terminal event truncates the last interval but does not remove it
        let filtered = scn.t_eval.is_some() || scn.first_step.is_some();
        if !filtered {
            rep.count("interval_counts_checked", 1);
            if sol.naccpt + 1 != sol.t.len() {
                rep.violate(
                    &format!("C18/naccpt_vs_intervals/{}/{}", m, jmode),
                    format!("naccpt = {} but {} intervals were reported", sol.naccpt, sol.t.len().saturating_sub(1)),
                    &case_id,
                    case(),
                );
            }
        }
        if i % 997 == 0 {
            rep.sample(case());
        }
    });

    // hard runs: stiffness met with explicit methods (ProbablyStiff), Newton failures in the
    // implicit methods, sudden onset of stiffness, huge first steps, blow-up; the counters must be
    // right on failing runs too
    let nhard = ctx.size(6_000, 300_000);
    let rep_h = par_for(nhard, "C18", |i, rep| {
        let case_id = format!("hard/{}", i);
        if !ctx.want(&case_id) {
            return;
        }
        use crate::problems::{FnProblem, Problem};
        let mut rng = Rng::derive(ctx.seed, 180, i as u64);
        let method = METHODS[i % 6];
        let m = mname(method);
        let kind = (i / 6) % 6;
        let lam = rng.logu(1e2, 1e5);
        let kk = rng.logu(1e3, 1e5);
        let boxed: Box<dyn Problem> = match kind {
            0 => Box::new(FnProblem { n: 2, name: format!("stiff_linear lam={}", lam), fun: move |t: f64, y: &[f64], d: &mut [f64]| { d[0] = -lam * (y[0] - t.cos()); d[1] = y[0] - y[1]; } }),
            1 => Box::new(FnProblem { n: 1, name: format!("onset y'=1-{}*max(y-1/2,0)^2", kk), fun: move |_t: f64, y: &[f64], d: &mut [f64]| { let z = (y[0] - 0.5).max(0.0); d[0] = 1.0 - kk * z * z; } }),
            2 => Box::new(FnProblem { n: 1, name: format!("cubic y'=-{}(y-cos x)^3 - sin x", kk), fun: move |t: f64, y: &[f64], d: &mut [f64]| { let z = y[0] - t.cos(); d[0] = -kk * z * z * z - t.sin(); } }),
            3 => Box::new(crate::problems::StiffVdP { mu: rng.logu(10.0, 1000.0) }),
            4 => Box::new(crate::problems::Robertson),
            _ => Box::new(FnProblem { n: 1, name: "blowup y'=y^2".into(), fun: |_t: f64, y: &[f64], d: &mut [f64]| { d[0] = y[0] * y[0]; } }),
        };
        let prob: &dyn Problem = boxed.as_ref();
        let y0 = match kind { 0 => vec![0.0, 1.0], 1 => vec![0.0], 2 => vec![rng.range(0.5, 1.5)], 3 => vec![2.0, 0.0], 4 => vec![1.0, 0.0, 0.0], _ => vec![1.0] };
        let xend = match kind { 0 => 2.0, 1 => 3.0, 2 => 3.0, 3 => 3.0, 4 => 40.0, _ => 2.0 };
        let mut scn = Scn::new(method, 0.0, xend, y0);
        let rt = rng.logu(1e-8, 1e-3);
        scn.rtol = Tol::S(rt);
        scn.atol = Tol::S(rt * rng.logu(1e-4, 1.0));
        scn.user_jac = false;
        if rng.chance(0.4) && method != Method::RK4 { scn.first_step = Some(rng.logu(1e-3, 1.0)); }
        if method == Method::RK4 { scn.first_step = Some(xend / rng.range(50.0, 400.0)); }
        scn.max_steps = Some(20_000);
        scn.budget = 3_000_000;
        let jmode = if !is_implicit(method) { "explicit" } else { "fd_jac" };
        let res = run_solve(prob, &scn, false, false);
        rep.eval();
        let sol = match &res.out {
            Outcome::Ok(s) => s,
            Outcome::Budget => { rep.inconclusive("evaluation_budget_exhausted"); return; }
            Outcome::Err(_) => { rep.count("config_errors_returned", 1); return; }
            Outcome::Panic(msg) => { rep.violate(&format!("C18/no_panic/{}/{}", m, jmode), format!("panic: {}", msg), &case_id, scn.describe(prob)); return; }
        };
        rep.count("hard_runs_checked", 1);
        rep.count(&format!("hard_status_{:?}", sol.status), 1);
        let case = || {
            let mut c = scn.describe(prob);
            c["reported"] = json!({"nfev": sol.nfev, "njev": sol.njev, "nstep": sol.nstep, "naccpt": sol.naccpt, "nrejct": sol.nrejct, "len_t": sol.t.len(), "status": format!("{:?}", sol.status)});
            c["observed"] = json!({"ode_calls_stepper": res.log.n_ode, "ode_calls_in_jacobian_differencing": res.log.n_ode_jac, "jac_calls": res.log.n_jac});
            c
        };
        let cls = format!("{}_hard", jmode);
        if sol.nrejct > 0 || res.log.n_jac > 0 { rep.nontrivial(scn_hash(&scn, prob) ^ 0x77); }
        if sol.nfev as u64 != res.log.n_ode {
            rep.violate(&format!("C18/nfev/{}/{}", m, cls), format!("nfev = {} but the stepper evaluated the right-hand side {} times (status {:?})", sol.nfev, res.log.n_ode, sol.status), &case_id, case());
        }
        if sol.njev as u64 != res.log.n_jac {
            rep.violate(&format!("C18/njev/{}/{}", m, cls), format!("njev = {} but jac was called {} times", sol.njev, res.log.n_jac), &case_id, case());
        }
        if sol.nstep < sol.naccpt {
            rep.violate(&format!("C18/nstep_ge_naccpt/{}/{}", m, cls), format!("nstep = {} < naccpt = {}", sol.nstep, sol.naccpt), &case_id, case());
        }
        if scn.first_step.is_none() || method == Method::RK4 {
            rep.count("interval_counts_checked", 1);
            if sol.naccpt + 1 != sol.t.len() {
                rep.violate(&format!("C18/naccpt_vs_intervals/{}/{}_{:?}", m, cls, sol.status), format!("naccpt = {} but {} intervals were reported (status {:?})", sol.naccpt, sol.t.len().saturating_sub(1), sol.status), &case_id, case());
            }
        }
    });

    // low-level builders: naccpt == number of post-initial callbacks, nfev == probe count
    let nlow = ctx.size(12_000, 1_500_000);
    let rep2 = par_for(nlow, "C18", |i, rep| {
        let case_id = format!("low/{}", i);
        if !ctx.want(&case_id) {
            return;
        }
        let mut rng = Rng::derive(ctx.seed, 1818, i as u64);
        let g2 = GenOpts { bidirectional_problems: true, ..Default::default() };
        let (prob, scn) = gen_case(&mut rng, &g2);
        let m = mname(scn.method);
        let mut probe = Probe::new(&prob, scn.x0);
        probe.user_jac = scn.user_jac;
        probe.budget = 600_000;
        let dense = rng.bool();
        // the counters must be right whatever the callback answers: half of the runs answer ModifiedSolution (state
        // unchanged) at the initial and/or at later callbacks, ask for interpolants on demand (XOut), or pass no callback
        let variant = rng.below(8);
        let lo = LowOpts { dense, no_callback: variant == 7, first_step: if rng.chance(0.2) && scn.method != Method::RK4 { Some(scn.dir() * (scn.xend - scn.x0).abs() / rng.range(10.0, 200.0)) } else { None }, ..Default::default() };
        let mut so = RecSolOut::new(Some(&probe));
        match variant {
            4 => so.script = vec![(0, Action::Scale(1.0))],
            5 => so.script = vec![(0, Action::Scale(1.0)), (1 + rng.below(5), Action::Scale(1.0)), (7 + rng.below(9), Action::Scale(1.0))],
            6 => so.script = vec![(rng.below(3), Action::XOut(scn.x0 + (scn.xend - scn.x0) * rng.range(0.0, 0.8)))],
            _ => {}
        }
        let vname = ["plain", "plain", "plain", "plain", "modified_at_initial_callback", "modified_solution", "interpolant_on_demand", "no_callback"][variant];
        rep.count(&format!("low_level_runs_{}", vname), 1);
        let out = run_low_guarded(scn.method, &probe, scn.x0, &scn.y0, scn.xend, &scn.rtol, &scn.atol, &lo, &mut so);
        rep.eval();
        let case = scn.describe(&prob);
        match out {
            LowOutcome::Ok(ir) => {
                rep.count("low_level_runs_checked", 1);
                let log = probe.take_log();
                let ncb = so.cbs.len().saturating_sub(1);
                if variant != 7 && ir.steps.accepted != ncb {
                    rep.violate(&format!("C18/naccpt_vs_callbacks/{}/low_level", m), format!("steps.accepted = {} but {} post-initial callbacks were made", ir.steps.accepted, ncb), &case_id, case.clone());
                }
                if ir.evals.ode as u64 != log.n_ode {
                    rep.violate(&format!("C18/nfev/{}/low_level_dense_{}_{}", m, dense, vname), format!("evals.ode = {} but {} stepper evaluations observed (callback behaviour: {}, first_step {:?})", ir.evals.ode, log.n_ode, vname, lo.first_step), &case_id, case.clone());
                }
                if ir.evals.jac as u64 != log.n_jac {
                    rep.violate(&format!("C18/njev/{}/low_level", m), format!("evals.jac = {} but {} jac calls observed", ir.evals.jac, log.n_jac), &case_id, case.clone());
                }
                if ir.steps.total < ir.steps.accepted {
                    rep.violate(&format!("C18/nstep_ge_naccpt/{}/low_level", m), "steps.total < steps.accepted".into(), &case_id, case.clone());
                }
                if ir.steps.rejected > 0 {
                    rep.nontrivial(scn_hash(&scn, &prob) ^ 0x5555);
                }
            }
            LowOutcome::Budget => rep.inconclusive("evaluation_budget_exhausted"),
            LowOutcome::Err(_) => rep.count("config_errors_returned", 1),
            LowOutcome::Panic(msg) => rep.violate(&format!("C18/no_panic/{}/low_level", m), format!("panic: {}", msg), &case_id, case),
        }
    });
    let mut rep = rep;
    rep.merge(rep_h);
    rep.merge(rep2);
    let _ = Status::Success;
    (rep, meta)
}
