//! C18 — reported statistics count what actually happened (probe counts vs Solution counters).

use super::common::*;
use crate::ctx::{Ctx, Meta};
use crate::probe::*;
use crate::report::Report;
use crate::rng::Rng;
use crate::util::par_for;
use ivp::prelude::*;
use serde_json::json;

pub fn run(ctx: &Ctx) -> (Report, Meta) {
    let meta = Meta::new(
        "random bounded problems x 6 methods x tolerances x directions x analytic / finite-difference Jacobian x {plain, t_eval, dense, events, max_steps, max_step} through solve_ivp, plus the low-level builders with a recording SolOut (dense on/off), plus zero-length runs; non-trivial = run with at least one rejected step or one Jacobian evaluation (distinct by scenario hash)",
    )
    .assume("evaluations made while differencing a Jacobian are separated from stepper evaluations by delegating the default Jacobian to an inner IVP under a flag")
    .floor("runs_checked", 500)
    .floor("runs_with_rejections", 50)
    .floor("runs_with_jacobian", 100)
    .floor("low_level_runs_checked", 100);
    let g = GenOpts {
        allow_t_eval: true,
        allow_events: true,
        allow_max_step: true,
        allow_max_steps: true,
        bidirectional_problems: false,
        ..Default::default()
    };
    let nrand = ctx.size(3_000, 150_000);
    let rep = par_for(nrand, "C18", |i, rep| {
        let case_id = format!("run/{}", i);
        if !ctx.want(&case_id) {
            return;
        }
        let mut rng = Rng::derive(ctx.seed, 18, i as u64);
        let (mut prob, mut scn) = gen_case(&mut rng, &g);
        // problems with many rejections: discontinuous forcing one time in four
        if i % 4 == 0 {
            prob = crate::problems::Simple::Disc { w: rng.range(1.0, 5.0) };
            scn.y0 = vec![rng.range(-1.0, 1.0)];
            scn.events.clear();
            scn.rtol = Tol::S(scn.rtol.at(0));
            scn.atol = Tol::S(scn.atol.at(0));
            if scn.dir() < 0.0 {
                // damped problem: integrate forward
                let span = (scn.xend - scn.x0).abs();
                scn.xend = scn.x0 + span;
                if let Some(te) = scn.t_eval.as_mut() {
                    for t in te.iter_mut() {
                        *t = scn.x0 + (scn.x0 - *t);
                    }
                }
            }
        } else if scn.dir() < 0.0 && !matches!(prob, crate::problems::Simple::Osc { .. } | crate::problems::Simple::LV { .. } | crate::problems::Simple::Lin3 { .. }) {
            return;
        }
        let m = mname(scn.method);
        let jmode = if !is_implicit(scn.method) { "explicit" } else if scn.user_jac { "user_jac" } else { "fd_jac" };
        let zero_len = i % 61 == 0;
        if zero_len {
            scn.xend = scn.x0;
            scn.t_eval = None;
        }
        let res = run_solve(&prob, &scn, false, false);
        rep.eval();
        let sol = match &res.out {
            Outcome::Ok(s) => s,
            Outcome::Budget => {
                rep.inconclusive("evaluation_budget_exhausted");
                return;
            }
            Outcome::Err(_) => {
                rep.count("config_errors_returned", 1);
                return;
            }
            Outcome::Panic(msg) => {
                rep.violate(&format!("C18/no_panic/{}/{}", m, jmode), format!("panic: {}", msg), &case_id, scn.describe(&prob));
                return;
            }
        };
        rep.count("runs_checked", 1);
        let case = || {
            let mut c = scn.describe(&prob);
            c["reported"] = json!({"nfev": sol.nfev, "njev": sol.njev, "nstep": sol.nstep, "naccpt": sol.naccpt, "nrejct": sol.nrejct, "len_t": sol.t.len(), "status": format!("{:?}", sol.status)});
            c["observed"] = json!({"ode_calls_stepper": res.log.n_ode, "ode_calls_in_jacobian_differencing": res.log.n_ode_jac, "jac_calls": res.log.n_jac});
            c
        };
        if zero_len {
            rep.count("zero_length_runs", 1);
            if sol.nfev + sol.njev + sol.nlu + sol.nstep + sol.naccpt + sol.nrejct != 0 {
                rep.violate(&format!("C18/zero_length_counters/{}/{}", m, jmode), "non-zero counter for the zero-length run".into(), &case_id, case());
            }
            return;
        }
        if sol.nrejct > 0 {
            rep.count("runs_with_rejections", 1);
        }
        if res.log.n_jac > 0 {
            rep.count("runs_with_jacobian", 1);
        }
        if sol.nrejct > 0 || res.log.n_jac > 0 {
            rep.nontrivial(scn_hash(&scn, &prob));
        }
        if sol.nfev as u64 != res.log.n_ode {
            rep.violate(
                &format!("C18/nfev/{}/{}", m, jmode),
                format!("nfev = {} but the stepper evaluated the right-hand side {} times ({} more inside Jacobian differencing)", sol.nfev, res.log.n_ode, res.log.n_ode_jac),
                &case_id,
                case(),
            );
        }
        if sol.njev as u64 != res.log.n_jac {
            rep.violate(&format!("C18/njev/{}/{}", m, jmode), format!("njev = {} but jac was called {} times", sol.njev, res.log.n_jac), &case_id, case());
        }
        if sol.nstep < sol.naccpt {
            rep.violate(&format!("C18/nstep_ge_naccpt/{}/{}", m, jmode), format!("nstep = {} < naccpt = {}", sol.nstep, sol.naccpt), &case_id, case());
        }
        let filtered = scn.t_eval.is_some() || scn.first_step.is_some() || scn.events.iter().any(|e| e.terminal.is_some());
        if !filtered {
            rep.count("interval_counts_checked", 1);
            if sol.naccpt + 1 != sol.t.len() {
                rep.violate(
                    &format!("C18/naccpt_vs_intervals/{}/{}", m, jmode),
                    format!("naccpt = {} but {} intervals were reported", sol.naccpt, sol.t.len().saturating_sub(1)),
                    &case_id,
                    case(),
                );
            }
        }
        if i % 997 == 0 {
            rep.sample(case());
        }
    });

    // low-level builders: naccpt == number of post-initial callbacks, nfev == probe count
    let nlow = ctx.size(600, 30_000);
    let rep2 = par_for(nlow, "C18", |i, rep| {
        let case_id = format!("low/{}", i);
        if !ctx.want(&case_id) {
            return;
        }
        let mut rng = Rng::derive(ctx.seed, 1818, i as u64);
        let g2 = GenOpts { bidirectional_problems: true, ..Default::default() };
        let (prob, scn) = gen_case(&mut rng, &g2);
        let m = mname(scn.method);
        let mut probe = Probe::new(&prob, scn.x0);
        probe.user_jac = scn.user_jac;
        probe.budget = 600_000;
        let dense = rng.bool();
        let lo = LowOpts { dense, ..Default::default() };
        let mut so = RecSolOut::new(Some(&probe));
        let out = run_low_guarded(scn.method, &probe, scn.x0, &scn.y0, scn.xend, &scn.rtol, &scn.atol, &lo, &mut so);
        rep.eval();
        let case = scn.describe(&prob);
        match out {
            LowOutcome::Ok(ir) => {
                rep.count("low_level_runs_checked", 1);
                let log = probe.take_log();
                let ncb = so.cbs.len().saturating_sub(1);
                if ir.steps.accepted != ncb {
                    rep.violate(&format!("C18/naccpt_vs_callbacks/{}/low_level", m), format!("steps.accepted = {} but {} post-initial callbacks were made", ir.steps.accepted, ncb), &case_id, case.clone());
                }
                if ir.evals.ode as u64 != log.n_ode {
                    rep.violate(&format!("C18/nfev/{}/low_level_dense_{}", m, dense), format!("evals.ode = {} but {} stepper evaluations observed", ir.evals.ode, log.n_ode), &case_id, case.clone());
                }
                if ir.evals.jac as u64 != log.n_jac {
                    rep.violate(&format!("C18/njev/{}/low_level", m), format!("evals.jac = {} but {} jac calls observed", ir.evals.jac, log.n_jac), &case_id, case.clone());
                }
                if ir.steps.total < ir.steps.accepted {
                    rep.violate(&format!("C18/nstep_ge_naccpt/{}/low_level", m), "steps.total < steps.accepted".into(), &case_id, case.clone());
                }
                if ir.steps.rejected > 0 {
                    rep.nontrivial(scn_hash(&scn, &prob) ^ 0x5555);
                }
            }
            LowOutcome::Budget => rep.inconclusive("evaluation_budget_exhausted"),
            LowOutcome::Err(_) => rep.count("config_errors_returned", 1),
            LowOutcome::Panic(msg) => rep.violate(&format!("C18/no_panic/{}/low_level", m), format!("panic: {}", msg), &case_id, case),
        }
    });
    let mut rep = rep;
    rep.merge(rep2);
    let _ = Status::Success;
    (rep, meta)
}
