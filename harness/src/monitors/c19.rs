//! C19 — the SolOut callback protocol of the low-level solvers (trace-specification monitor).

use super::common::*;
use crate::ctx::{Ctx, Meta};
use crate::probe::*;
use crate::problems::*;
use crate::report::Report;
use crate::rng::Rng;
use crate::util::{bits_eq, par_for, EPS};
use ivp::prelude::*;
use serde_json::json;

struct Trace {
    cbs: Vec<Cb>,
    status: Option<Status>,
    accepted: usize,
    log: ProbeLog,
    outcome: String,
}

fn run_trace(method: Method, prob: &dyn Problem, scn: &Scn, lo: &LowOpts, script: &[(usize, Action)], keep_y: bool) -> Trace {
    let mut probe = Probe::new(prob, scn.x0);
    probe.user_jac = scn.user_jac;
    probe.budget = 1_500_000;
    probe.keep_calls = keep_y;
    probe.keep_y = keep_y;
    let mut so = RecSolOut::new(Some(&probe));
    so.thetas = vec![0.0, 1.0];
    so.script = script.to_vec();
    let out = run_low_guarded(method, &probe, scn.x0, &scn.y0, scn.xend, &scn.rtol, &scn.atol, lo, &mut so);
    let (status, accepted, outcome) = match out {
        LowOutcome::Ok(ir) => (Some(ir.status), ir.steps.accepted, format!("{:?}", ir.status)),
        LowOutcome::Err(e) => (None, 0, format!("Err({})", e)),
        LowOutcome::Panic(m) => (None, 0, format!("Panic({})", m)),
        LowOutcome::Budget => (None, 0, "Budget".into()),
    };
    Trace { cbs: so.cbs, status, accepted, log: probe.take_log(), outcome }
}

/// u' = -d (u + k u^3), v' = -d v / 2 with d = direction of integration (so that both directions decay): the flow from ANY
/// state is known in closed form, u(tau) = u0 e^-tau / sqrt(1 + k u0^2 (1 - e^-2tau)), tau = |t - t0|. Stiff where |u| ~ 1
/// and k is large, mild later: a state written by the callback far from the current one invalidates whatever the solver
/// remembers (Jacobian, LU factors, step size, history).
struct CubicDecay {
    k: f64,
    d: f64,
}
impl CubicDecay {
    fn flow(&self, y: &[f64], tau: f64) -> Vec<f64> {
        let e = (-tau).exp();
        vec![y[0] * e / (1.0 + self.k * y[0] * y[0] * (1.0 - e * e)).sqrt(), y[1] * (-0.5 * tau).exp()]
    }
}
impl Problem for CubicDecay {
    fn dim(&self) -> usize {
        2
    }
    fn f(&self, _t: f64, y: &[f64], dy: &mut [f64]) {
        dy[0] = -self.d * (y[0] + self.k * y[0] * y[0] * y[0]);
        dy[1] = -self.d * 0.5 * y[1];
    }
    fn jac_dense(&self, _t: f64, y: &[f64]) -> Option<Vec<Vec<f64>>> {
        Some(vec![vec![-self.d * (1.0 + 3.0 * self.k * y[0] * y[0]), 0.0], vec![0.0, -self.d * 0.5]])
    }
    fn describe(&self) -> serde_json::Value {
        json!({"family": "cubic_decay_with_passive_component", "k": self.k, "direction": self.d})
    }
}

pub fn run(ctx: &Ctx) -> (Report, Meta) {
    let k_tol = 50.0;
    let meta = Meta::new(
        "low-level builders (RK4, RK23, DOPRI5, DOP853, RADAU, BDF) with a recording SolOut on bounded and closed-form problems, both directions, dense on/off; scripts: plain run; Interrupt at every callback index of short runs (index 0 included) and random indices of long ones; ModifiedSolution with an unchanged state at one or several indices (no-op relation); ModifiedSolution doubling the state of a linear homogeneous system under pure relative control (doubling relation); several modifications followed by an interrupt; ModifiedSolution writing a state far from the current one on a stiff cubic decay whose flow from any state is known in closed form (the run must continue from the written state, within tolerance of that flow, to xend); right-hand sides that depend on t (non-autonomous) so that re-evaluation at the wrong abscissa is visible; non-trivial = script with at least one non-Continue action (distinct by scenario + script hash)",
    )
    .assume("explicit methods and Radau: no-op relation is bitwise; doubling relation is bitwise for the explicit methods; BDF (history restart) and Radau doubling: both runs within the C01-type bound of the exact solution")
    .thresholds(json!({"implicit_within_tolerance_factor": k_tol, "contiguity": "xold == previous x to 4 ulps"}))
    .floor("plain_traces_checked", 300)
    .floor("interrupt_scripts_checked", 1500)
    .floor("interrupts_at_index_0", 60)
    .floor("noop_scripts_checked", 300)
    .floor("doubling_scripts_checked", 150)
    .floor("post_modification_evaluations_checked", 400)
    .floor("jump_scripts_checked", 300);

    let n = ctx.size(16_000, 2_000_000);
    let g = GenOpts { allow_max_step: true, bidirectional_problems: true, max_span: 12.0, ..Default::default() };
    let rep = par_for(n, "C19", |i, rep| {
        let case_id = format!("case/{}", i);
        if !ctx.want(&case_id) {
            return;
        }
        let mut rng = Rng::derive(ctx.seed, 19, i as u64);
        let (simple, mut scn) = gen_case(&mut rng, &g);
        let method = METHODS[i % 6];
        scn.method = method;
        scn.user_jac = is_implicit(method) && rng.bool();
        let m = mname(method);
        let dirn = scn.dir();
        // one case in three uses a closed-form non-autonomous problem (exact solution available)
        let comp: Option<(Composite, f64)> = if (i / 6) % 3 != 0 { Some(random_composite(&mut rng, scn.x0, scn.xend, 3, 10.0)) } else { None };
        let prob: &dyn Problem = match &comp {
            Some((c, _)) => {
                scn.y0 = c.y0();
                let (rt, at) = random_tols(&mut rng, method, c.dim());
                scn.rtol = rt;
                scn.atol = at;
                c
            }
            None => &simple,
        };
        if method == Method::RK4 {
            scn.first_step = Some(dirn * (scn.xend - scn.x0).abs() / rng.range(6.0, 60.0));
        }
        let lo = LowOpts { dense: rng.chance(0.7), max_step: scn.max_step, first_step: scn.first_step, ..Default::default() };
        let case = {
            let mut c = scn.describe(prob);
            c["api"] = json!("low_level");
            c["dense"] = json!(lo.dense);
            c
        };
        // ---------------- plain trace ----------------
        let plain = run_trace(method, prob, &scn, &lo, &[], false);
        rep.eval();
        let Some(pstatus) = plain.status else {
            if plain.outcome.starts_with("Panic") {
                rep.violate(&format!("C19/no_panic/{}/plain", m), plain.outcome.clone(), &case_id, case);
            } else {
                rep.inconclusive("plain_run_not_ok");
            }
            return;
        };
        rep.count("plain_traces_checked", 1);
        let sig = |clause: &str, cls: &str| format!("C19/{}/{}/{}", clause, m, cls);
        let ncb = plain.cbs.len();
        if ncb == 0 {
            rep.violate(&sig("initial_callback", "plain"), "SolOut was never called".into(), &case_id, case);
            return;
        }
        {
            let c0 = &plain.cbs[0];
            if c0.xold.to_bits() != scn.x0.to_bits() || c0.x.to_bits() != scn.x0.to_bits() || !bits_eq(&c0.y, &scn.y0) || c0.has_interp {
                rep.violate(&sig("initial_callback", "plain"), format!("first callback is (xold={:e}, x={:e}, y={:?}, interpolant={}) instead of (x0, x0, y0, None)", c0.xold, c0.x, c0.y, c0.has_interp), &case_id, case.clone());
            }
        }
        for k in 1..ncb {
            let (c, p) = (&plain.cbs[k], &plain.cbs[k - 1]);
            let tol = 4.0 * EPS * c.xold.abs().max(p.x.abs());
            if (c.xold - p.x).abs() > tol {
                rep.violate(&sig("contiguous_intervals", "plain"), format!("callback {}: xold = {:e} but the previous callback ended at x = {:e}", k, c.xold, p.x), &case_id, case.clone());
                break;
            }
            if (c.x - c.xold) * dirn <= 0.0 {
                rep.violate(&sig("forward_progress", "plain"), format!("callback {}: interval [{:e}, {:e}] does not advance in the direction of integration", k, c.xold, c.x), &case_id, case.clone());
                break;
            }
            if lo.dense && !c.has_interp {
                rep.violate(&sig("interpolant_passed", "plain"), format!("callback {} received no interpolant although dense output is enabled", k), &case_id, case.clone());
                break;
            }
        }
        if plain.accepted + 1 != ncb {
            rep.violate(&sig("once_per_accepted_step", "plain"), format!("{} accepted steps but {} post-initial callbacks", plain.accepted, ncb - 1), &case_id, case.clone());
        }
        if pstatus == Status::Success {
            let rt = rt_slack(method, scn.x0, scn.xend, ncb);
            if (plain.cbs[ncb - 1].x - scn.xend).abs() > rt {
                rep.violate(&sig("ends_at_xend", "plain"), format!("status Success but the last callback ended at {:e}, xend = {:e}", plain.cbs[ncb - 1].x, scn.xend), &case_id, case.clone());
            }
        } else {
            rep.inconclusive("plain_run_not_successful");
            return;
        }

        // ---------------- interrupt scripts ----------------
        let idxs: Vec<usize> = if ncb <= 12 { (0..ncb).collect() } else { let mut v = vec![0, 1, ncb - 1]; for _ in 0..5 { v.push(rng.below(ncb)); } v };
        for &k in &idxs {
            let tr = run_trace(method, prob, &scn, &lo, &[(k, Action::Interrupt)], false);
            rep.eval();
            rep.count("interrupt_scripts_checked", 1);
            if k == 0 {
                rep.count("interrupts_at_index_0", 1);
            }
            rep.nontrivial(scn_hash(&scn, prob) ^ (k as u64).wrapping_mul(0x9E37));
            let cls = if k == 0 { "interrupt_at_initial_callback" } else if k == ncb - 1 { "interrupt_at_last_callback" } else { "interrupt" };
            let mut c2 = case.clone();
            c2["script"] = json!([{"at_callback": k, "action": "Interrupt"}]);
            match tr.status {
                Some(Status::UserInterrupt) => {}
                other => {
                    rep.violate(&sig("interrupt_status", cls), format!("Interrupt returned at callback {} but the solver reported {:?} ({})", k, other, tr.outcome), &case_id, c2.clone());
                    continue;
                }
            }
            if tr.cbs.len() != k + 1 {
                rep.violate(&sig("no_callback_after_interrupt", cls), format!("Interrupt at callback {} but {} callbacks were made in total", k, tr.cbs.len()), &case_id, c2.clone());
                continue;
            }
            let calls_end = tr.log.n_ode + tr.log.n_ode_jac;
            if calls_end != tr.cbs[k].calls_at_entry {
                rep.violate(&sig("no_evaluation_after_interrupt", cls), format!("{} right-hand-side evaluations were made after the callback returned Interrupt", calls_end - tr.cbs[k].calls_at_entry), &case_id, c2.clone());
            }
            if tr.accepted != k {
                rep.violate(&sig("accepted_steps_at_interrupt", cls), format!("Interrupt at callback {} (= after {} accepted steps) but steps.accepted = {}", k, k, tr.accepted), &case_id, c2.clone());
            }
            // prefix identical to the plain run
            for j in 0..=k {
                if tr.cbs[j].x.to_bits() != plain.cbs[j].x.to_bits() || !bits_eq(&tr.cbs[j].y, &plain.cbs[j].y) {
                    rep.violate(&sig("prefix_before_interrupt", cls), format!("callback {} differs from the plain run although nothing was modified", j), &case_id, c2.clone());
                    break;
                }
            }
        }

        // ---------------- no-op ModifiedSolution ----------------
        {
            let nmods = 1 + rng.below(3);
            let mut script: Vec<(usize, Action)> = Vec::new();
            for _ in 0..nmods {
                let k = rng.below(ncb);
                if !script.iter().any(|(q, _)| *q == k) {
                    script.push((k, Action::Scale(1.0)));
                }
            }
            if (i / 6) % 4 == 0 && !script.iter().any(|(q, _)| *q == 0) {
                script.push((0, Action::Scale(1.0)));
            }
            let tr = run_trace(method, prob, &scn, &lo, &script, true);
            rep.eval();
            rep.count("noop_scripts_checked", 1);
            rep.nontrivial(scn_hash(&scn, prob) ^ 0xABCD ^ script.len() as u64);
            let mut c2 = case.clone();
            c2["script"] = json!(script.iter().map(|(k, _)| json!({"at_callback": k, "action": "ModifiedSolution (state unchanged)"})).collect::<Vec<_>>());
            let cls = if script.iter().any(|(q, _)| *q == 0) { "noop_incl_initial_callback" } else { "noop" };
            if tr.status.is_none() {
                rep.violate(&sig("no_panic", cls), format!("run with a no-op ModifiedSolution ended with {}", tr.outcome), &case_id, c2.clone());
            } else {
                // the next stepper evaluation after each modification is at exactly (x, y_written)
                for (k, _) in &script {
                    if *k >= tr.cbs.len() {
                        continue;
                    }
                    let cb = &tr.cbs[*k];
                    if *k == tr.cbs.len() - 1 && tr.status == Some(Status::Success) {
                        continue; // after the final callback nothing needs to be evaluated
                    }
                    let idx = cb.calls_at_entry as usize;
                    // find the first stepper ode call (kind 0) at or after log position of that count
                    let mut seen = 0usize;
                    let mut found = None;
                    for (pos, c) in tr.log.calls.iter().enumerate() {
                        if c.kind <= 1 {
                            if seen >= idx && c.kind == 0 {
                                found = Some(pos);
                                break;
                            }
                            seen += 1;
                        }
                    }
                    rep.count("post_modification_evaluations_checked", 1);
                    match found {
                        Some(pos) => {
                            let c = &tr.log.calls[pos];
                            if c.t.to_bits() != cb.x.to_bits() || !bits_eq(&tr.log.ys[pos], &cb.y_after) {
                                rep.violate(
                                    &sig("reevaluates_at_written_state", cls),
                                    format!("after ModifiedSolution at callback {} (x = {:e}) the next derivative evaluation is at t = {:e}, y = {:?} instead of (x, {:?})", k, cb.x, c.t, tr.log.ys[pos], cb.y_after),
                                    &case_id,
                                    c2.clone(),
                                );
                            }
                        }
                        None => rep.violate(&sig("reevaluates_at_written_state", cls), format!("no derivative evaluation follows the ModifiedSolution at callback {}", k), &case_id, c2.clone()),
                    }
                }
                if method != Method::BDF {
                    // bitwise no-op
                    let same = tr.cbs.len() == plain.cbs.len() && tr.cbs.iter().zip(&plain.cbs).all(|(a, b)| a.x.to_bits() == b.x.to_bits() && bits_eq(&a.y, &b.y));
                    if !same {
                        let first = tr.cbs.iter().zip(&plain.cbs).position(|(a, b)| a.x.to_bits() != b.x.to_bits() || !bits_eq(&a.y, &b.y));
                        rep.violate(&sig("unchanged_state_is_noop", cls), format!("ModifiedSolution with an unchanged state changed the run: {} vs {} callbacks, first difference at callback {:?}", tr.cbs.len(), plain.cbs.len(), first), &case_id, c2.clone());
                    }
                } else if let Some((c, amp)) = &comp {
                    // BDF restarts its history: both runs must stay within tolerance of the exact solution
                    if tr.status == Some(Status::Success) {
                        let last = tr.cbs.last().unwrap();
                        let ex = c.exact(last.x).unwrap();
                        for j in 0..ex.len() {
                            // one tolerance scale per component for the whole run: the error present at the end was
                            // committed where |y_j| was large, the final value may sit at a zero crossing
                            let ymax = tr.cbs.iter().fold(0.0f64, |mx, cb| mx.max(c.exact(cb.x).unwrap()[j].abs()));
                            let tolj = scn.atol.at(j) + scn.rtol.at(j) * ymax;
                            let ratio = (last.y[j] - ex[j]).abs() / (amp * (tr.cbs.len() as f64) * tolj);
                            rep.worst("bdf_noop_err_over_naccpt_tol", ratio);
                            // the run without the no-op is the yardstick where the problem itself is hard for BDF
                            // (how accurate BDF is in absolute terms is C01's subject)
                            let ratio_plain = plain.cbs.last().map(|pl| (pl.y[j] - c.exact(pl.x).unwrap()[j]).abs() / (amp * (plain.cbs.len() as f64) * tolj)).unwrap_or(0.0);
                            if ratio > k_tol && !(ratio <= 10.0 * ratio_plain) {
                                rep.violate(&sig("unchanged_state_within_tolerance", cls), format!("BDF after a no-op ModifiedSolution: final error {:e} is {:.0} x naccpt x tol", (last.y[j] - ex[j]).abs(), ratio), &case_id, c2.clone());
                                break;
                            }
                        }
                    } else {
                        rep.violate(&sig("unchanged_state_within_tolerance", cls), format!("BDF after a no-op ModifiedSolution ended with {}", tr.outcome), &case_id, c2.clone());
                    }
                }
            }
        }

        // ---------------- doubling on a linear homogeneous system, pure relative control ----------------
        if (i / 6) % 2 == 0 {
            let nb = 1 + rng.below(3);
            let bases: Vec<Base> = (0..nb).map(|_| Base::Lin1 { lam: -dirn * rng.range(0.05, 1.5) * if rng.chance(0.8) { 1.0 } else { -0.3 }, u0: rng.sign() * rng.range(0.5, 2.0) }).collect();
            let warp = if rng.bool() { Warp::Id } else { Warp::Sin { a: rng.range(-0.5, 0.5), b: rng.range(0.5, 2.0) } };
            let span = rng.range(0.5, 4.0);
            let x0 = scn.x0;
            let xend = x0 + dirn * span;
            let c = Composite::new(bases, warp, None, x0);
            let mut s2 = Scn::new(method, x0, xend, c.y0());
            s2.rtol = Tol::S(rng.logu(1e-8, 1e-4));
            s2.atol = Tol::S(0.0);
            s2.user_jac = is_implicit(method);
            if method == Method::RK4 {
                s2.first_step = Some(dirn * span / rng.range(6.0, 40.0));
            }
            let lo2 = LowOpts { dense: lo.dense, first_step: s2.first_step, ..Default::default() };
            let p2 = run_trace(method, &c, &s2, &lo2, &[], false);
            if p2.status == Some(Status::Success) && p2.cbs.len() >= 3 {
                let k = rng.below(p2.cbs.len() - 1);
                let tr = run_trace(method, &c, &s2, &lo2, &[(k, Action::Scale(2.0))], false);
                rep.evals(2);
                rep.count("doubling_scripts_checked", 1);
                let mut c2 = s2.describe(&c);
                c2["script"] = json!([{"at_callback": k, "action": "ModifiedSolution (y <- 2 y)"}]);
                let cls = if k == 0 { "doubling_at_initial_callback" } else { "doubling" };
                if tr.status != Some(Status::Success) {
                    rep.violate(&sig("doubling", cls), format!("run with a doubled state ended with {}", tr.outcome), &case_id, c2);
                } else if !is_implicit(method) {
                    let same = tr.cbs.len() == p2.cbs.len()
                        && (0..tr.cbs.len()).all(|j| {
                            let (a, b) = (&tr.cbs[j], &p2.cbs[j]);
                            a.x.to_bits() == b.x.to_bits() && (0..a.y.len()).all(|q| if j <= k { a.y[q].to_bits() == b.y[q].to_bits() } else { a.y[q].to_bits() == (2.0 * b.y[q]).to_bits() })
                        });
                    if !same {
                        let first = (0..tr.cbs.len().min(p2.cbs.len())).find(|&j| {
                            let (a, b) = (&tr.cbs[j], &p2.cbs[j]);
                            a.x.to_bits() != b.x.to_bits() || (0..a.y.len()).any(|q| if j <= k { a.y[q] != b.y[q] } else { a.y[q] != 2.0 * b.y[q] })
                        });
                        rep.violate(&sig("doubling", cls), format!("doubling the state at callback {} did not exactly double what follows ({} vs {} callbacks, first deviation at callback {:?})", k, tr.cbs.len(), p2.cbs.len(), first), &case_id, c2);
                    }
                } else {
                    // implicit: within tolerance of twice the exact solution
                    let last = tr.cbs.last().unwrap();
                    let ex = c.exact(last.x).unwrap();
                    for j in 0..ex.len() {
                        let ymax = tr.cbs.iter().fold(0.0f64, |mx, cb| mx.max(c.exact(cb.x).unwrap()[j].abs()));
                        let tolj = s2.rtol.at(j) * 2.0 * ymax;
                        let ratio = (last.y[j] - 2.0 * ex[j]).abs() / ((tr.cbs.len() as f64) * tolj);
                        rep.worst(&format!("implicit_doubling_err_over_naccpt_tol_{}", m), ratio);
                        if ratio > k_tol {
                            rep.violate(&sig("doubling_within_tolerance", cls), format!("after doubling at callback {} the final state {:e} is not twice the exact solution {:e} within tolerance ({:.0} x naccpt x tol)", k, last.y[j], ex[j], ratio), &case_id, c2.clone());
                            break;
                        }
                    }
                }
            }
        }

        // ---------------- a state written far from the current one (nonlinear problem with a closed-form flow) ----------------
        if method != Method::RK4 && ((i / 6) % 3 == 1 || (is_implicit(method) && (i / 6) % 3 == 2)) {
            let cd = CubicDecay { k: rng.logu(1e1, 1e5), d: dirn };
            let x0 = if rng.bool() { 0.0 } else { scn.x0 };
            let span = rng.range(0.5, 3.0);
            let xend = x0 + dirn * span;
            let mut s3 = Scn::new(method, x0, xend, vec![1.0, 1.0]);
            let rt = rng.logu(if method == Method::RK23 { 1e-6 } else { 1e-7 }, 1e-4);
            s3.rtol = Tol::S(rt);
            s3.atol = Tol::S(rt * 1e-3);
            s3.user_jac = is_implicit(method) && rng.chance(0.7);
            let lo3 = LowOpts { dense: lo.dense, ..Default::default() };
            let p3 = run_trace(method, &cd, &s3, &lo3, &[], false);
            rep.eval();
            if p3.status == Some(Status::Success) && p3.cbs.len() >= 4 {
                let nc = p3.cbs.len();
                for _attempt in 0..(if is_implicit(method) { 4 } else { 1 }) {
                // late indices over-weighted: the solver has settled there and reuses what it remembers
                let j = if rng.chance(0.6) { nc / 2 + rng.below(nc - 1 - nc / 2) } else { rng.below(nc - 1) };
                let written = vec![rng.sign() * rng.range(0.5, 1.5), rng.range(0.5, 2.0)];
                let tr = run_trace(method, &cd, &s3, &lo3, &[(j, Action::Set(written.clone()))], false);
                rep.eval();
                rep.count("jump_scripts_checked", 1);
                let mut c3 = s3.describe(&cd);
                c3["api"] = json!("low_level");
                c3["script"] = json!([{"at_callback": j, "action": "ModifiedSolution", "state_written": written}]);
                let cls = if j == 0 { "jump_at_initial_callback" } else { "jump" };
                if tr.status != Some(Status::Success) {
                    rep.violate(&sig("continues_from_written_state", cls), format!("after the callback wrote {:?} at callback {} (x = {:e}) the run ended with {} instead of reaching xend", written, j, p3.cbs[j].x, tr.outcome), &case_id, c3);
                } else if tr.cbs.len() <= j {
                    rep.violate(&sig("continues_from_written_state", cls), format!("only {} callbacks although the script acts at callback {}", tr.cbs.len(), j), &case_id, c3);
                } else {
                    let last = tr.cbs.last().unwrap();
                    let rt_sl = rt_slack(method, s3.x0, s3.xend, tr.cbs.len());
                    if (last.x - xend).abs() > rt_sl {
                        rep.violate(&sig("ends_at_xend", cls), format!("status Success but the last callback ended at {:e}, xend = {:e}", last.x, xend), &case_id, c3.clone());
                    }
                    let xj = tr.cbs[j].x;
                    let nsteps = (tr.cbs.len() - j) as f64;
                    let mut worst = 0.0f64;
                    let mut at = 0usize;
                    for q in j + 1..tr.cbs.len() {
                        let cb = &tr.cbs[q];
                        let ex = cd.flow(&written, (cb.x - xj).abs());
                        for c in 0..2 {
                            // contractive flow: errors do not grow; one tolerance scale per component for the whole run
                            let tolc = s3.atol.at(c) + s3.rtol.at(c) * written[c].abs();
                            let r = (cb.y[c] - ex[c]).abs() / (nsteps * tolc);
                            if r > worst {
                                worst = r;
                                at = q;
                            }
                        }
                    }
                    rep.worst(&format!("jump_err_over_nsteps_tol_{}", m), worst);
                    // same calibrated per-method constants as C01 (a single stability-limited explicit step right after the
                    // jump can miss the tolerance by more than the generic factor: RK23 88 x, DOP853 452 x observed, thorough tier)
                    if worst > k_tol.max(super::c01::k_method(method)) {
                        rep.violate(&sig("continues_from_written_state", cls), format!("after the callback wrote {:?} at callback {} the states that follow are not the solution through the written state: error {:.0} x steps x tol at callback {}", written, j, worst, at), &case_id, c3);
                    }
                }
                }
            } else if p3.status.is_none() || p3.status != Some(Status::Success) {
                rep.inconclusive("cubic_decay_plain_run_not_successful");
            }
        }

        // ---------------- several modifications, then an interrupt ----------------
        if ncb >= 5 {
            let kint = 2 + rng.below(ncb - 2);
            let mut script: Vec<(usize, Action)> = vec![(kint, Action::Interrupt)];
            for _ in 0..2 {
                let k = rng.below(kint);
                if !script.iter().any(|(q, _)| *q == k) {
                    script.push((k, Action::Scale(1.0)));
                }
            }
            let tr = run_trace(method, prob, &scn, &lo, &script, false);
            rep.eval();
            rep.count("mixed_scripts_checked", 1);
            let mut c2 = case.clone();
            c2["script"] = json!(format!("{:?}", script));
            // BDF restarts its history at every modification, so its run may finish in fewer callbacks than the plain run
            let bdf_finished_early = method == Method::BDF && tr.status == Some(Status::Success) && tr.cbs.len() <= kint;
            if !bdf_finished_early && (tr.status != Some(Status::UserInterrupt) || tr.cbs.len() != kint + 1 || (method != Method::BDF && tr.log.n_ode + tr.log.n_ode_jac != tr.cbs[kint.min(tr.cbs.len() - 1)].calls_at_entry)) {
                if method != Method::BDF || tr.status != Some(Status::UserInterrupt) {
                    rep.violate(&sig("interrupt_after_modifications", "mixed"), format!("modifications followed by Interrupt at callback {}: status {:?}, {} callbacks", kint, tr.status, tr.cbs.len()), &case_id, c2);
                }
            }
        }
        if i % 199 == 0 {
            rep.sample(json!({"scenario": case, "callbacks_in_plain_run": ncb}));
        }
    });
    (rep, meta)
}
