use crate::ctx::{Ctx, Meta};
use crate::report::Report;
pub fn run(ctx: &Ctx) -> (Report, Meta) {
    (Report::new(&ctx.prop), Meta::new("not built yet"))
}
pub fn emit_expected(_tier: &str, _seed: u64) {}
