//! C20 — Rust side of the differential monitor for the Python binding: a deterministic case table
//! (problems restricted to + - * / in a fixed association order, so that the Python twin computes
//! bit-identical right-hand sides) together with the results of the Rust API, floats as bit patterns.
//! The Python driver (/verif/py/c20_driver.py) runs the same cases through the extension module.

use crate::ctx::{Ctx, Meta};
use crate::report::Report;
use crate::rng::Rng;
use ivp::prelude::*;
use serde_json::{json, Value};

#[derive(Clone, Debug)]
pub struct Ev {
    pub kind: &'static str, // "comp" | "lin" | "time"
    pub k: usize,
    pub c: f64,
    pub terminal: bool,
    pub direction: i32,
}

#[derive(Clone, Debug)]
pub struct Cat {
    pub name: &'static str,
    pub n: usize,
    pub params: Vec<f64>,
    pub events: Vec<Ev>,
    pub jac_mode: &'static str, // "none" | "callable" | "constant"
}

impl IVP for Cat {
    fn ode(&self, t: f64, y: &[f64], d: &mut [f64]) {
        let p = &self.params;
        match self.name {
            "vdp" => {
                d[0] = y[1];
                d[1] = p[0] * ((1.0 - y[0] * y[0]) * y[1]) - y[0];
            }
            "lin" => {
                // tridiagonal: d_i = a y_{i-1} + b y_i + c y_{i+1}
                let n = self.n;
                for i in 0..n {
                    let mut s = p[1] * y[i];
                    if i > 0 {
                        s = s + p[0] * y[i - 1];
                    }
                    if i + 1 < n {
                        s = s + p[2] * y[i + 1];
                    }
                    d[i] = s;
                }
            }
            "lotka" => {
                d[0] = p[0] * y[0] - p[1] * y[0] * y[1];
                d[1] = -p[2] * y[1] + p[3] * y[0] * y[1];
            }
            "decay" => {
                for i in 0..self.n {
                    d[i] = -p[i] * y[i];
                }
            }
            "robertson" => {
                d[0] = -p[0] * y[0] + p[1] * y[1] * y[2];
                d[1] = p[0] * y[0] - p[1] * y[1] * y[2] - p[2] * y[1] * y[1];
                d[2] = p[2] * y[1] * y[1];
            }
            _ => {
                // "forced": non-autonomous polynomial forcing
                d[0] = -p[0] * y[0] + t * t * p[1];
                d[1] = y[0] - y[1] * p[2] + t * p[1];
            }
        }
    }
    fn n_events(&self) -> usize {
        self.events.len()
    }
    fn events(&self, t: f64, y: &[f64], out: &mut [f64]) {
        for (i, e) in self.events.iter().enumerate() {
            out[i] = match e.kind {
                "comp" => y[e.k] - e.c,
                "lin" => y[0] + y[self.n - 1] * 0.5 - e.c,
                _ => t - e.c,
            };
        }
    }
    fn event_config(&self, i: usize) -> EventConfig {
        let mut c = EventConfig::new();
        if self.events[i].terminal {
            c.terminal();
        }
        c.direction(Direction::from(self.events[i].direction));
        c
    }
    fn jac(&self, t: f64, y: &[f64], j: &mut Matrix) {
        if self.jac_mode == "none" {
            // default finite differences of the trait
            struct Inner<'a>(&'a Cat);
            impl<'a> IVP for Inner<'a> {
                fn ode(&self, t: f64, y: &[f64], d: &mut [f64]) {
                    self.0.ode(t, y, d)
                }
            }
            IVP::jac(&Inner(self), t, y, j);
            return;
        }
        let p = &self.params;
        let n = self.n;
        for r in 0..n {
            for c in 0..n {
                j[(r, c)] = 0.0;
            }
        }
        match self.name {
            "vdp" => {
                j[(0, 1)] = 1.0;
                j[(1, 0)] = p[0] * (-2.0 * y[0] * y[1]) - 1.0;
                j[(1, 1)] = p[0] * (1.0 - y[0] * y[0]);
            }
            "lin" => {
                for i in 0..n {
                    j[(i, i)] = p[1];
                    if i > 0 {
                        j[(i, i - 1)] = p[0];
                    }
                    if i + 1 < n {
                        j[(i, i + 1)] = p[2];
                    }
                }
            }
            "lotka" => {
                j[(0, 0)] = p[0] - p[1] * y[1];
                j[(0, 1)] = -p[1] * y[0];
                j[(1, 0)] = p[3] * y[1];
                j[(1, 1)] = -p[2] + p[3] * y[0];
            }
            "decay" => {
                for i in 0..n {
                    j[(i, i)] = -p[i];
                }
            }
            "robertson" => {
                j[(0, 0)] = -p[0];
                j[(0, 1)] = p[1] * y[2];
                j[(0, 2)] = p[1] * y[1];
                j[(1, 0)] = p[0];
                j[(1, 1)] = -p[1] * y[2] - 2.0 * p[2] * y[1];
                j[(1, 2)] = -p[1] * y[1];
                j[(2, 1)] = 2.0 * p[2] * y[1];
            }
            _ => {
                j[(0, 0)] = -p[0];
                j[(1, 0)] = 1.0;
                j[(1, 1)] = -p[2];
            }
        }
        let _ = t;
    }
}

fn hx(x: f64) -> Value {
    json!(format!("{:016x}", x.to_bits()))
}
fn hxv(v: &[f64]) -> Value {
    Value::Array(v.iter().map(|&x| hx(x)).collect())
}

pub struct Case {
    pub spec: Value,
    pub cat: Cat,
    pub method: Method,
    pub x0: f64,
    pub xend: f64,
    pub y0: Vec<f64>,
    pub opts: Box<dyn Fn() -> Options>,
    pub probes: Vec<f64>,
}

pub fn gen_case(seed: u64, idx: usize) -> Case {
    let mut rng = Rng::derive(seed, 20, idx as u64);
    let methods: [(&str, Method); 6] = [("RK45", Method::DOPRI5), ("RK23", Method::RK23), ("DOP853", Method::DOP853), ("Radau", Method::RADAU), ("BDF", Method::BDF), ("RK4", Method::RK4)];
    let (mstr, method) = methods[idx % 6];
    let pk = (idx / 6) % 6;
    let (name, n, params, y0, span): (&'static str, usize, Vec<f64>, Vec<f64>, f64) = match pk {
        0 => ("vdp", 2, vec![rng.range(0.5, 3.0)], vec![rng.range(-2.0, 2.0), rng.range(-1.0, 1.0)], rng.range(1.0, 6.0)),
        1 => {
            let n = 3 + rng.below(4);
            ("lin", n, vec![rng.range(0.1, 1.0), -rng.range(1.5, 3.0), rng.range(0.1, 1.0)], (0..n).map(|_| rng.range(-1.0, 1.0)).collect(), rng.range(1.0, 5.0))
        }
        2 => ("lotka", 2, vec![rng.range(0.5, 1.5), rng.range(0.5, 1.5), rng.range(0.5, 1.5), rng.range(0.5, 1.5)], vec![rng.range(0.5, 2.0), rng.range(0.5, 2.0)], rng.range(1.0, 6.0)),
        3 => {
            let n = 1 + rng.below(4);
            ("decay", n, (0..n).map(|_| rng.range(0.2, 3.0)).collect(), (0..n).map(|_| rng.range(0.5, 2.0)).collect(), rng.range(0.5, 4.0))
        }
        4 => ("robertson", 3, vec![0.04, 1.0e4, 3.0e7], vec![1.0, 0.0, 0.0], if matches!(method, Method::RADAU | Method::BDF) { rng.logu(1.0, 400.0) } else { rng.range(0.001, 0.01) }),
        _ => ("forced", 2, vec![rng.range(0.3, 2.0), rng.range(0.05, 0.3), rng.range(0.3, 2.0)], vec![rng.range(-1.0, 1.0), rng.range(-1.0, 1.0)], rng.range(1.0, 5.0)),
    };
    let backward = rng.chance(0.25) && name != "robertson";
    let x0 = if rng.bool() { 0.0 } else { rng.range(-2.0, 2.0) };
    let xend = if backward { x0 - span } else { x0 + span };
    let dirn = if backward { -1.0 } else { 1.0 };
    let rt = rng.logu(1e-8, 1e-3);
    let at = rt * rng.logu(1e-3, 1.0);
    let rtol_vec = rng.chance(0.2);
    let atol_vec = rng.chance(0.25);
    let rtol_list: Vec<f64> = (0..n).map(|_| rt * rng.range(0.5, 2.0)).collect();
    let atol_list: Vec<f64> = (0..n).map(|_| at * rng.range(0.5, 2.0)).collect();
    let dense = rng.bool();
    let t_eval: Option<Vec<f64>> = if rng.chance(0.4) {
        let m = 2 + rng.below(9);
        let mut v: Vec<f64> = (0..=m).map(|i| x0 + (xend - x0) * i as f64 / m as f64).collect();
        *v.last_mut().unwrap() = xend;
        Some(v)
    } else {
        None
    };
    let mut events: Vec<Ev> = Vec::new();
    if rng.chance(0.5) {
        let ne = 1 + rng.below(3);
        for _ in 0..ne {
            let kind = *rng.pick(&["comp", "lin", "time"]);
            let c = match kind {
                "time" => x0 + (xend - x0) * rng.range(0.1, 0.9),
                _ => rng.range(-0.5, 1.0),
            };
            events.push(Ev { kind, k: rng.below(n), c, terminal: false, direction: rng.int(-1, 1) as i32 });
        }
        if rng.chance(0.4) {
            let k = rng.below(events.len());
            events[k].terminal = true;
        }
    }
    let implicit = matches!(method, Method::RADAU | Method::BDF);
    let jac_mode: &'static str = if !implicit {
        "none"
    } else {
        match rng.below(3) {
            0 => "none",
            1 => "callable",
            _ => {
                if name == "lin" || name == "decay" {
                    "constant"
                } else {
                    "callable"
                }
            }
        }
    };
    let first_step = if method == Method::RK4 { Some(dirn * span / rng.range(20.0, 200.0)) } else if rng.chance(0.2) { Some(span * rng.range(0.001, 0.05)) } else { None };
    let max_step = if method != Method::RK4 && rng.chance(0.25) { Some(span * rng.range(0.05, 0.5)) } else { None };
    let max_steps = if rng.chance(0.15) { Some(*rng.pick(&[3usize, 10, 40])) } else { None };
    let probes: Vec<f64> = (0..5).map(|_| x0 + (xend - x0) * rng.f()).collect();
    let cat = Cat { name, n, params: params.clone(), events: events.clone(), jac_mode };
    let spec = json!({
        "id": idx,
        "problem": {"name": name, "n": n, "params": params},
        "method": mstr,
        "t_span": [hx(x0), hx(xend)],
        "y0": hxv(&y0),
        "rtol": if rtol_vec { hxv(&rtol_list) } else { hx(rt) },
        "atol": if atol_vec { hxv(&atol_list) } else { hx(at) },
        "t_eval": t_eval.as_ref().map(|v| hxv(v)),
        "dense_output": dense,
        "events": events.iter().map(|e| json!({"kind": e.kind, "k": e.k, "c": hx(e.c), "terminal": e.terminal, "direction": e.direction})).collect::<Vec<_>>(),
        "jac": jac_mode,
        "first_step": first_step.map(hx),
        "max_step": max_step.map(hx),
        "max_steps": max_steps,
        "sol_probe_times": hxv(&probes),
    });
    let opts = {
        let (rtl, atl, te) = (rtol_list.clone(), atol_list.clone(), t_eval.clone());
        Box::new(move || {
            let b = Options::builder()
                .method(method)
                .dense_output(dense)
                .maybe_t_eval(te.clone())
                .maybe_first_step(first_step)
                .maybe_max_step(max_step)
                .maybe_max_steps(max_steps);
            match (rtol_vec, atol_vec) {
                (true, true) => b.rtol(rtl.clone()).atol(atl.clone()).build(),
                (true, false) => b.rtol(rtl.clone()).atol(at).build(),
                (false, true) => b.rtol(rt).atol(atl.clone()).build(),
                (false, false) => b.rtol(rt).atol(at).build(),
            }
        }) as Box<dyn Fn() -> Options>
    };
    Case { spec, cat, method, x0, xend, y0, opts, probes }
}

pub fn n_cases(tier: &str) -> usize {
    if tier == "thorough" {
        30_000
    } else {
        1_296
    }
}

/// prints one JSON object per line: the case spec with an "expected" block from the Rust API
pub fn emit_expected(tier: &str, seed: u64) {
    for idx in 0..n_cases(tier) {
        let c = gen_case(seed, idx);
        let r = std::panic::catch_unwind(std::panic::AssertUnwindSafe(|| solve_ivp(&c.cat, c.x0, c.xend, &c.y0, (c.opts)())));
        let mut spec = c.spec.clone();
        spec["expected"] = match r {
            Err(p) => json!({"outcome": "panic", "message": crate::probe::panic_message(&p)}),
            Ok(Err(e)) => json!({"outcome": "err", "error": format!("{:?}", e)}),
            Ok(Ok(sol)) => {
                let probes: Vec<Value> = match &sol.continuous_sol {
                    Some(cs) => c.probes.iter().map(|&t| cs.evaluate_extrapolate(t).map(|v| hxv(&v)).unwrap_or(Value::Null)).collect(),
                    None => Vec::new(),
                };
                json!({
                    "outcome": "ok",
                    "status_name": format!("{:?}", sol.status),
                    "t": hxv(&sol.t),
                    "y": sol.y.iter().map(|v| hxv(v)).collect::<Vec<_>>(),
                    "t_events": sol.t_events.iter().map(|v| hxv(v)).collect::<Vec<_>>(),
                    "y_events": sol.y_events.iter().map(|ev| ev.iter().map(|v| hxv(v)).collect::<Vec<_>>()).collect::<Vec<_>>(),
                    "nfev": sol.nfev, "njev": sol.njev, "nlu": sol.nlu,
                    "sol_at_probes": probes,
                })
            }
        };
        println!("{}", spec);
    }
}

/// `ivpmon run --property C20` is not the deciding command (the Python driver is); it only reports
/// that the table can be generated.
pub fn run(ctx: &Ctx) -> (Report, Meta) {
    let mut rep = Report::new("C20");
    for idx in 0..n_cases(&ctx.tier).min(50) {
        let c = gen_case(ctx.seed, idx);
        let r = std::panic::catch_unwind(std::panic::AssertUnwindSafe(|| solve_ivp(&c.cat, c.x0, c.xend, &c.y0, (c.opts)())));
        rep.eval();
        if r.is_ok() {
            rep.nontrivial(idx as u64);
        }
    }
    rep.notes.push("C20 is decided by /verif/py/c20_driver.py (./check C20 <tier>); this entry only exercises the Rust side of the table".into());
    (rep, Meta::new("Rust side of the C20 case table only; use ./check C20"))
}
