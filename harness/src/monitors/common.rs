//! helpers shared by the solver monitors: scenario generator for the option sweep, rounding
//! slacks, pilot runs, event-root helpers.

use crate::probe::*;
use crate::problems::*;
use crate::rng::Rng;
use crate::util::EPS;
use ivp::prelude::*;

/// "to rounding" slack for times (DESIGN §2): one addition x + (xend - x) for adaptive methods,
/// accumulated additions for fixed-step RK4.
pub fn rt_slack(method: Method, x0: f64, xend: f64, nstep: usize) -> f64 {
    let scale = x0.abs().max(if xend.is_finite() { xend.abs() } else { x0.abs() });
    match method {
        Method::RK4 => (nstep as f64 + 4.0) * EPS * scale,
        _ => 4.0 * EPS * scale,
    }
}

pub struct GenOpts {
    pub methods: Vec<Method>,
    pub allow_tiny_span: bool,
    pub allow_huge: bool,
    pub allow_inf: bool,
    pub allow_first_step: bool,
    pub allow_weird_first_step: bool,
    pub allow_max_step: bool,
    pub allow_max_steps: bool,
    pub allow_t_eval: bool,
    pub allow_events: bool,
    pub allow_terminal: bool,
    pub allow_dense: bool,
    pub bidirectional_problems: bool,
    /// one case in eight with an implicit method integrates a stiff Van der Pol oscillator (mu 10..1000, forward,
    /// random start off the limit cycle, span up to 1.5 relaxation times)
    pub stiff_for_implicit: bool,
    /// one case in seven with an implicit method sets min_step (1e-9 .. 1e-2 of the interval)
    pub allow_min_step: bool,
    pub min_span: f64,
    pub max_span: f64,
}
impl Default for GenOpts {
    fn default() -> Self {
        GenOpts {
            methods: METHODS.to_vec(),
            allow_tiny_span: false,
            allow_huge: false,
            allow_inf: false,
            allow_first_step: false,
            allow_weird_first_step: false,
            allow_max_step: false,
            allow_max_steps: false,
            allow_t_eval: false,
            allow_events: false,
            allow_terminal: false,
            allow_dense: true,
            bidirectional_problems: true,
            stiff_for_implicit: false,
            allow_min_step: false,
            min_span: 0.05,
            max_span: 30.0,
        }
    }
}

pub fn random_tols(rng: &mut Rng, method: Method, n: usize) -> (Tol, Tol) {
    let lo: f64 = match method {
        Method::RK23 => 1e-7,
        Method::BDF => 1e-8,
        _ => 1e-10,
    };
    let rtol = rng.logu(lo, 1e-3);
    let atol = rtol * rng.logu(1e-3, 1.0);
    if rng.chance(0.25) {
        (
            Tol::V((0..n).map(|_| rtol * rng.range(0.5, 2.0)).collect()),
            Tol::V((0..n).map(|_| atol * rng.range(0.5, 2.0)).collect()),
        )
    } else {
        (Tol::S(rtol), Tol::S(atol))
    }
}

/// A random event function whose values along bounded trajectories of the Simple problems
/// cross zero now and then.
pub fn random_event(rng: &mut Rng, n: usize, x0: f64, xend: f64) -> EvSpec {
    let lo = x0.min(xend);
    let hi = if xend.is_finite() { x0.max(xend) } else { x0.abs() + 20.0 };
    let kind = match rng.below(6) {
        0 => EvKind::Time { c: rng.range(lo, hi) },
        1 | 2 => EvKind::Comp { k: rng.below(n), c: rng.range(-0.8, 0.8) },
        3 => EvKind::Lin {
            a: (0..n).map(|_| rng.range(-1.0, 1.0)).collect(),
            bt: rng.range(-0.05, 0.05),
            c: rng.range(-0.3, 0.3),
        },
        4 => {
            if n >= 2 {
                EvKind::Prod { i: 0, j: 1, c: rng.range(-0.3, 0.3) }
            } else {
                EvKind::Sq { k: 0, c: rng.range(0.05, 0.8) }
            }
        }
        _ => EvKind::TwoRoots { c1: rng.range(lo, hi), c2: rng.range(lo, hi) },
    };
    EvSpec { kind, dir: rng.int(-1, 1) as i32, terminal: None }
}

/// Generate one sweep case: a bounded Simple problem with a random configuration.
pub fn gen_case(rng: &mut Rng, g: &GenOpts) -> (Simple, Scn) {
    let method = *rng.pick(&g.methods);
    let mut huge = false;
    let prob = if g.allow_huge && rng.chance(0.06) {
        huge = true;
        if rng.bool() {
            Simple::Zero { n: 1 + rng.below(4) }
        } else {
            Simple::Quad
        }
    } else if g.bidirectional_problems {
        Simple::random_bidirectional(rng)
    } else {
        Simple::random(rng)
    };
    let stiff_mu = if g.stiff_for_implicit && is_implicit(method) && !huge && rng.chance(0.125) { Some(rng.logu(10.0, 1000.0)) } else { None };
    let prob = match stiff_mu {
        Some(mu) => Simple::VdP { mu },
        None => prob,
    };
    let n = prob.dim();
    let y0 = prob.y0(rng);
    let x0 = match rng.below(8) {
        0 | 1 | 2 => 0.0,
        3 => rng.range(-3.0, 3.0),
        4 => 1e-3,
        5 => rng.sign() * rng.range(10.0, 100.0),
        6 => {
            if g.allow_huge {
                rng.sign() * 1e6
            } else {
                rng.range(-3.0, 3.0)
            }
        }
        _ => rng.range(-1.0, 1.0),
    };
    let mut span = if huge {
        rng.logu(1.0, 1e8)
    } else if g.allow_tiny_span && rng.chance(0.15) {
        rng.logu(1e-12, 1e-6)
    } else if g.allow_tiny_span && rng.chance(0.12) {
        rng.logu(1e-6, 1e-2)
    } else {
        rng.logu(g.min_span, g.max_span)
    };
    // spans of a few thousand ulps of x0 are legitimately unresolvable (honest StepSizeTooSmall,
    // and RK4's default step span/100 would be below ulp(x0)): keep span >= 1e7 ulps
    let min_res = 1e7 * EPS * x0.abs();
    if span < min_res {
        span = rng.logu(min_res, (min_res * 1e4).max(1e-3));
    }
    if method == Method::RK4 && !huge {
        span = span.min(20.0);
    }
    let mut dir = rng.sign();
    if let Some(mu) = stiff_mu {
        span = mu * rng.range(0.05, 1.5);
        dir = 1.0;
    }
    let mut xend = x0 + dir * span;
    let mut scn = Scn::new(method, x0, xend, y0);
    let (rt, at) = random_tols(rng, method, n);
    scn.rtol = rt;
    scn.atol = at;
    scn.user_jac = is_implicit(method) && rng.bool();
    scn.dense = g.allow_dense && rng.bool();
    if g.allow_first_step && rng.chance(0.45) {
        let h = match rng.below(if g.allow_weird_first_step { 7 } else { 3 }) {
            0 => span * rng.logu(1e-6, 1e-2),
            1 => span / 3.0,
            2 => span * rng.range(0.01, 0.3),
            3 => span,
            4 => 5.0 * span,
            5 => -span * rng.range(0.01, 0.3), // wrong sign (relative to dir) handled below
            _ => span * 1.0000001,
        };
        // RK4 requires the sign of the direction; adaptive methods take either sign
        let signed = if method == Method::RK4 {
            dir * h.abs()
        } else if h < 0.0 {
            -dir * h.abs()
        } else if rng.chance(0.7) {
            dir * h
        } else {
            h
        };
        scn.first_step = Some(signed);
    }
    if method == Method::RK4 && scn.first_step.is_none() && huge {
        scn.first_step = Some(dir * span / 50.0);
    }
    if g.allow_max_step && rng.chance(0.4) && method != Method::RK4 {
        scn.max_step = Some(match rng.below(5) {
            0 => f64::INFINITY,
            1 => span / 4.0,
            2 => span / 7.0,
            3 => 3.0 * span,
            _ => span * rng.range(0.02, 0.5),
        });
    }
    if g.allow_min_step && is_implicit(method) && rng.chance(0.15) {
        scn.min_step = Some(span * rng.logu(1e-9, 1e-2));
    }
    if g.allow_max_steps && rng.chance(0.25) {
        scn.max_steps = Some(*rng.pick(&[1usize, 2, 3, 5, 10, 30, 100]));
    }
    if g.allow_events && rng.chance(0.45) {
        let ne = 1 + rng.below(3);
        for _ in 0..ne {
            scn.events.push(random_event(rng, n, x0, xend));
        }
        if g.allow_terminal && rng.chance(0.5) {
            let k = rng.below(ne);
            scn.events[k].terminal = Some(1 + rng.below(3));
        }
    }
    if g.allow_inf && rng.chance(0.04) && !huge {
        // infinite xend, stopped by a terminal time event
        xend = dir * f64::INFINITY;
        scn.xend = xend;
        let c = x0 + dir * span;
        scn.events = vec![EvSpec { kind: EvKind::Time { c }, dir: 0, terminal: Some(1) }];
        if method == Method::RK4 {
            scn.first_step = Some(dir * span / 37.0);
        } else if let Some(h) = scn.first_step {
            scn.first_step = Some(h.abs().min(span) * dir);
        }
        scn.max_step = scn.max_step.map(|m| if m.is_finite() { m } else { f64::INFINITY });
    }
    if g.allow_t_eval && rng.chance(0.45) && xend.is_finite() {
        let m = 1 + rng.below(12);
        let mut ts: Vec<f64> = match rng.below(3) {
            0 => (0..=m).map(|i| x0 + (xend - x0) * i as f64 / m as f64).collect(),
            1 => {
                let mut v: Vec<f64> = (0..m).map(|_| x0 + (xend - x0) * rng.f()).collect();
                v.sort_by(|a, b| a.partial_cmp(b).unwrap());
                if dir < 0.0 {
                    v.reverse();
                }
                v
            }
            _ => {
                let mut v: Vec<f64> = (0..m).map(|_| x0 + (xend - x0) * rng.f()).collect();
                v.push(xend);
                v.sort_by(|a, b| a.partial_cmp(b).unwrap());
                if dir < 0.0 {
                    v.reverse();
                }
                v
            }
        };
        // keep inside the span and strictly monotone (uniform grid end point may round outside)
        for t in ts.iter_mut() {
            if (*t - xend) * dir > 0.0 {
                *t = xend;
            }
            if (*t - x0) * dir < 0.0 {
                *t = x0;
            }
        }
        ts.dedup();
        let mut mono = Vec::new();
        for t in ts {
            if mono.last().map_or(true, |l: &f64| (t - *l) * dir > 0.0) {
                mono.push(t);
            }
        }
        scn.t_eval = Some(mono);
    }
    // generous but finite evaluation budget
    scn.budget = 600_000;
    (prob, scn)
}

/// The accepted-step grid of a plain run (no t_eval, no first_step output games), or None.
pub fn pilot_grid(p: &dyn Problem, scn: &Scn) -> Option<Vec<f64>> {
    let mut s = scn.clone();
    s.t_eval = None;
    s.events.clear();
    s.dense = false;
    let r = run_solve(p, &s, false, false);
    match r.out {
        Outcome::Ok(sol) if sol.status == Status::Success && sol.t.len() >= 2 => Some(sol.t),
        _ => None,
    }
}

pub fn scn_hash(scn: &Scn, p: &dyn Problem) -> u64 {
    crate::util::hash_str(&scn.describe(p).to_string())
}

/// number of events of function i that a terminal configuration needs
pub fn terminal_reached(scn: &Scn, sol: &Solution) -> bool {
    scn.events.iter().enumerate().any(|(i, e)| match e.terminal {
        Some(k) => sol.t_events.get(i).map_or(false, |v| v.len() >= k),
        None => false,
    })
}
