//! helpers shared by the solver monitors
