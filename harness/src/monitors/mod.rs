//! One module per property. `dispatch` maps a property id to its monitor.
use crate::ctx::{Ctx, Meta};
use crate::report::Report;

pub mod common;
pub mod c01;
pub mod c02;
pub mod c03;
pub mod c04;
pub mod c05;
pub mod c06;
pub mod c07;
pub mod c08;
pub mod c10;
pub mod c11;
pub mod c12;
pub mod c13;
pub mod c14;
pub mod c15;
pub mod c16;
pub mod c17;
pub mod c18;
pub mod c19;
pub mod c20;

pub fn dispatch(ctx: &Ctx) -> Option<(Report, Meta)> {
    Some(match ctx.prop.as_str() {
        "C01" => c01::run(ctx),
        "C02" => c02::run(ctx),
        "C03" => c03::run(ctx),
        "C04" => c04::run(ctx),
        "C05" => c05::run(ctx),
        "C06" => c06::run(ctx),
        "C07" => c07::run(ctx),
        "C08" => c08::run(ctx, false),
        "C09" => c08::run(ctx, true),
        "C10" => c10::run(ctx),
        "C11" => c11::run(ctx),
        "C12" => c12::run(ctx),
        "C13" => c13::run(ctx),
        "C14" => c14::run(ctx),
        "C15" => c15::run(ctx),
        "C16" => c16::run(ctx),
        "C17" => c17::run(ctx),
        "C18" => c18::run(ctx),
        "C19" => c19::run(ctx),
        "C20" => c20::run(ctx),
        _ => return None,
    })
}
