//! Instrumented IVP / SolOut implementations: everything the monitors observe about a run is
//! recorded here, at the crate's public boundary.

use crate::problems::Problem;
use crate::util::{fnv, hash_f64s};
use ivp::methods::{IntegrationResult, Tolerance, BDF, DOP853, DOPRI5, RADAU, RK23, RK4};
use ivp::prelude::*;
use ivp::solout::SolOut;
use serde_json::{json, Value};
use std::any::Any;
use std::cell::{Cell, RefCell};

pub const METHODS: [Method; 6] = [
    Method::RK4,
    Method::RK23,
    Method::DOPRI5,
    Method::DOP853,
    Method::RADAU,
    Method::BDF,
];
pub const ADAPTIVE: [Method; 5] = [Method::RK23, Method::DOPRI5, Method::DOP853, Method::RADAU, Method::BDF];
pub const EXPLICIT_ADAPTIVE: [Method; 3] = [Method::RK23, Method::DOPRI5, Method::DOP853];

pub fn mname(m: Method) -> &'static str {
    match m {
        Method::RK4 => "RK4",
        Method::RK23 => "RK23",
        Method::DOPRI5 => "DOPRI5",
        Method::DOP853 => "DOP853",
        Method::RADAU => "RADAU",
        Method::BDF => "BDF",
    }
}
pub fn is_implicit(m: Method) -> bool {
    matches!(m, Method::RADAU | Method::BDF)
}

/// payload used to unwind out of a solver when the evaluation budget is exhausted
pub struct BudgetExceeded;

thread_local! {
    pub static LAST_PANIC: RefCell<String> = RefCell::new(String::new());
}

pub fn install_panic_hook() {
    std::panic::set_hook(Box::new(|info| {
        if info.payload().downcast_ref::<BudgetExceeded>().is_some() {
            return;
        }
        let msg = if let Some(s) = info.payload().downcast_ref::<&str>() {
            s.to_string()
        } else if let Some(s) = info.payload().downcast_ref::<String>() {
            s.clone()
        } else {
            "non-string panic payload".to_string()
        };
        let loc = info.location().map(|l| format!("{}:{}", l.file(), l.line())).unwrap_or_default();
        LAST_PANIC.with(|p| *p.borrow_mut() = format!("{} @ {}", msg, loc));
        if std::env::var("IVPMON_SHOW_PANICS").is_ok() {
            eprintln!("panic: {} @ {}", msg, loc);
        }
    }));
}

pub fn panic_message(p: &Box<dyn Any + Send>) -> String {
    if p.downcast_ref::<BudgetExceeded>().is_some() {
        return "budget".into();
    }
    let last = LAST_PANIC.with(|p| p.borrow().clone());
    if !last.is_empty() {
        return last;
    }
    if let Some(s) = p.downcast_ref::<&str>() {
        s.to_string()
    } else if let Some(s) = p.downcast_ref::<String>() {
        s.clone()
    } else {
        "unknown panic".into()
    }
}

// ------------------------------------------------------------------------------------------
// Event functions (harness-owned, so g is known to the monitors)
// ------------------------------------------------------------------------------------------

#[derive(Clone, Debug)]
pub enum EvKind {
    /// g = t - c
    Time { c: f64 },
    /// g = y_k - c
    Comp { k: usize, c: f64 },
    /// g = a . y + bt * t - c
    Lin { a: Vec<f64>, bt: f64, c: f64 },
    /// g = y_i * y_j - c
    Prod { i: usize, j: usize, c: f64 },
    /// g = (t - c1) (t - c2)
    TwoRoots { c1: f64, c2: f64 },
    /// g = y_k^2 - c
    Sq { k: usize, c: f64 },
}

#[derive(Clone, Debug)]
pub struct EvSpec {
    pub kind: EvKind,
    /// 0 all, +1 positive, -1 negative
    pub dir: i32,
    pub terminal: Option<usize>,
}

impl EvSpec {
    pub fn g(&self, t: f64, y: &[f64]) -> f64 {
        match &self.kind {
            EvKind::Time { c } => t - c,
            EvKind::Comp { k, c } => y[*k] - c,
            EvKind::Lin { a, bt, c } => a.iter().zip(y).map(|(p, q)| p * q).sum::<f64>() + bt * t - c,
            EvKind::Prod { i, j, c } => y[*i] * y[*j] - c,
            EvKind::TwoRoots { c1, c2 } => (t - c1) * (t - c2),
            EvKind::Sq { k, c } => y[*k] * y[*k] - c,
        }
    }
    pub fn describe(&self) -> Value {
        json!({"kind": format!("{:?}", self.kind), "dir": self.dir, "terminal": self.terminal})
    }
}

// ------------------------------------------------------------------------------------------
// Probe
// ------------------------------------------------------------------------------------------

#[derive(Clone, Debug)]
pub struct CallRec {
    /// 0 = ode (stepper), 1 = ode (inside Jacobian differencing), 2 = events, 3 = jac, 4 = mass
    pub kind: u8,
    pub t: f64,
    pub yh: u64,
}

#[derive(Clone, Debug, Default)]
pub struct ProbeLog {
    pub calls: Vec<CallRec>,
    pub ys: Vec<Vec<f64>>, // parallel to `calls` when keep_y (empty vec for mass)
    pub n_ode: u64,
    pub n_ode_jac: u64,
    pub n_jac: u64,
    pub n_events: u64,
    pub n_mass: u64,
    pub tmin: f64,
    pub tmax: f64,
    /// hash over (t, y) bit patterns of all stepper ode calls in order
    pub ode_hash: u64,
    /// furthest |t - x0| seen and the call index when it last increased (stall detection)
    pub far: f64,
    pub far_at: u64,
    /// smallest |t - x0| among the evaluations of the current window of `WIN` calls, and of the two windows
    /// completed before it (a run that still advances, however slowly, raises this minimum from window to window;
    /// the maximum does not tell: a crawl below an earlier, rejected trial step never exceeds it)
    pub win_calls: u64,
    pub win_min_cur: f64,
    pub win_min_last: f64,
    pub win_min_prev: f64,
    pub nonfinite_rhs: u64,
}

/// window length of the progress tracking above
pub const WIN: u64 = 1_000_000;

pub struct Probe<'a> {
    pub p: &'a dyn Problem,
    pub events: Vec<EvSpec>,
    pub user_jac: bool,
    pub supply_mass: bool,
    pub keep_calls: bool,
    pub keep_y: bool,
    pub budget: u64,
    pub x0: f64,
    pub log: RefCell<ProbeLog>,
    pub in_jac: Cell<bool>,
}

impl<'a> Probe<'a> {
    pub fn new(p: &'a dyn Problem, x0: f64) -> Self {
        Probe {
            p,
            events: Vec::new(),
            user_jac: false,
            supply_mass: true,
            keep_calls: false,
            keep_y: false,
            budget: 400_000,
            x0,
            log: RefCell::new(ProbeLog {
                tmin: f64::INFINITY,
                tmax: f64::NEG_INFINITY,
                ode_hash: 0xcbf2_9ce4_8422_2325,
                ..Default::default()
            }),
            in_jac: Cell::new(false),
        }
    }
    pub fn total_ode(&self) -> u64 {
        let l = self.log.borrow();
        l.n_ode + l.n_ode_jac
    }
    pub fn take_log(&self) -> ProbeLog {
        self.log.borrow().clone()
    }
    fn note_t(l: &mut ProbeLog, t: f64) {
        if t < l.tmin {
            l.tmin = t;
        }
        if t > l.tmax {
            l.tmax = t;
        }
    }
}

struct Inner<'b, 'a>(&'b Probe<'a>);
impl<'b, 'a> IVP for Inner<'b, 'a> {
    fn ode(&self, x: f64, y: &[f64], dydx: &mut [f64]) {
        self.0.ode(x, y, dydx)
    }
}

fn write_matrix(m: &mut Matrix, d: &[Vec<f64>]) {
    let n = d.len();
    match m.storage.clone() {
        MatrixStorage::Full => {
            for i in 0..n {
                for j in 0..n {
                    m[(i, j)] = d[i][j];
                }
            }
        }
        MatrixStorage::Banded { ml, mu } => {
            for i in 0..n {
                for j in 0..n {
                    let k = i as isize - j as isize;
                    if k <= ml as isize && -k <= mu as isize {
                        m[(i, j)] = d[i][j];
                    }
                }
            }
        }
        MatrixStorage::Identity => {}
    }
}

impl<'a> IVP for Probe<'a> {
    fn ode(&self, x: f64, y: &[f64], dydx: &mut [f64]) {
        {
            let mut l = self.log.borrow_mut();
            let inj = self.in_jac.get();
            if inj {
                l.n_ode_jac += 1;
            } else {
                l.n_ode += 1;
                fnv(&mut l.ode_hash, x.to_bits());
                for v in y {
                    fnv(&mut l.ode_hash, v.to_bits());
                }
            }
            Self::note_t(&mut l, x);
            let total = l.n_ode + l.n_ode_jac;
            let d = (x - self.x0).abs();
            if d > l.far {
                l.far = d;
                l.far_at = total;
            }
            if l.win_calls == 0 || d < l.win_min_cur {
                l.win_min_cur = d;
            }
            l.win_calls += 1;
            if l.win_calls >= WIN {
                l.win_min_prev = l.win_min_last;
                l.win_min_last = l.win_min_cur;
                l.win_calls = 0;
            }
            if self.keep_calls {
                l.calls.push(CallRec { kind: if inj { 1 } else { 0 }, t: x, yh: hash_f64s(y) });
                if self.keep_y {
                    l.ys.push(y.to_vec());
                }
            }
            if total > self.budget {
                drop(l);
                std::panic::panic_any(BudgetExceeded);
            }
        }
        self.p.f(x, y, dydx);
        if dydx.iter().any(|v| !v.is_finite()) {
            self.log.borrow_mut().nonfinite_rhs += 1;
        }
    }
    fn n_events(&self) -> usize {
        self.events.len()
    }
    fn events(&self, x: f64, y: &[f64], out: &mut [f64]) {
        {
            let mut l = self.log.borrow_mut();
            l.n_events += 1;
            Self::note_t(&mut l, x);
            if self.keep_calls {
                l.calls.push(CallRec { kind: 2, t: x, yh: hash_f64s(y) });
                if self.keep_y {
                    l.ys.push(y.to_vec());
                }
            }
        }
        for (i, e) in self.events.iter().enumerate() {
            out[i] = e.g(x, y);
        }
    }
    fn event_config(&self, i: usize) -> EventConfig {
        let mut c = EventConfig::new();
        let e = &self.events[i];
        c.direction(Direction::from(e.dir));
        if let Some(k) = e.terminal {
            c.terminal_count(k);
        }
        c
    }
    fn jac(&self, x: f64, y: &[f64], j: &mut Matrix) {
        {
            let mut l = self.log.borrow_mut();
            l.n_jac += 1;
            Self::note_t(&mut l, x);
            if self.keep_calls {
                l.calls.push(CallRec { kind: 3, t: x, yh: hash_f64s(y) });
                if self.keep_y {
                    l.ys.push(y.to_vec());
                }
            }
        }
        if self.user_jac {
            let d = self.p.jac_dense(x, y).expect("problem has no analytic Jacobian");
            write_matrix(j, &d);
        } else {
            self.in_jac.set(true);
            let inner = Inner(self);
            IVP::jac(&inner, x, y, j);
            self.in_jac.set(false);
        }
    }
    fn mass(&self, m: &mut Matrix) {
        {
            let mut l = self.log.borrow_mut();
            l.n_mass += 1;
            if self.keep_calls {
                l.calls.push(CallRec { kind: 4, t: f64::NAN, yh: 0 });
                if self.keep_y {
                    l.ys.push(Vec::new());
                }
            }
        }
        match (self.supply_mass, self.p.mass_dense()) {
            (true, Some(d)) => write_matrix(m, &d),
            _ => {
                let inner = Inner(self);
                IVP::mass(&inner, m);
            }
        }
    }
}

// ------------------------------------------------------------------------------------------
// Scenario for solve_ivp
// ------------------------------------------------------------------------------------------

#[derive(Clone, Debug)]
pub enum Tol {
    S(f64),
    V(Vec<f64>),
}
impl Tol {
    pub fn to_tolerance(&self) -> Tolerance {
        match self {
            Tol::S(v) => Tolerance::Scalar(*v),
            Tol::V(v) => Tolerance::Vector(v.clone()),
        }
    }
    pub fn at(&self, i: usize) -> f64 {
        match self {
            Tol::S(v) => *v,
            Tol::V(v) => v[i],
        }
    }
    pub fn describe(&self) -> Value {
        match self {
            Tol::S(v) => json!(v),
            Tol::V(v) => json!(v),
        }
    }
}

#[derive(Clone, Debug)]
pub struct Scn {
    pub method: Method,
    pub x0: f64,
    pub xend: f64,
    pub y0: Vec<f64>,
    pub rtol: Tol,
    pub atol: Tol,
    pub first_step: Option<f64>,
    pub max_step: Option<f64>,
    /// lower bound on the step size (honoured by Radau and BDF only)
    pub min_step: Option<f64>,
    pub max_steps: Option<usize>,
    pub t_eval: Option<Vec<f64>>,
    pub dense: bool,
    pub events: Vec<EvSpec>,
    pub user_jac: bool,
    pub jac_storage: MatrixStorage,
    pub mass_storage: MatrixStorage,
    pub supply_mass: bool,
    pub budget: u64,
}

impl Scn {
    pub fn new(method: Method, x0: f64, xend: f64, y0: Vec<f64>) -> Self {
        Scn {
            method,
            x0,
            xend,
            y0,
            rtol: Tol::S(1e-6),
            atol: Tol::S(1e-9),
            first_step: None,
            max_step: None,
            min_step: None,
            max_steps: None,
            t_eval: None,
            dense: false,
            events: Vec::new(),
            user_jac: false,
            jac_storage: MatrixStorage::Full,
            mass_storage: MatrixStorage::Identity,
            supply_mass: true,
            budget: 400_000,
        }
    }
    pub fn dir(&self) -> f64 {
        (self.xend - self.x0).signum()
    }
    pub fn options(&self) -> Options {
        Options::builder()
            .method(self.method)
            .rtol(self.rtol.to_tolerance())
            .atol(self.atol.to_tolerance())
            .maybe_max_steps(self.max_steps)
            .maybe_t_eval(self.t_eval.clone())
            .maybe_first_step(self.first_step)
            .maybe_max_step(self.max_step)
            .maybe_min_step(self.min_step)
            .dense_output(self.dense)
            .jac_storage(self.jac_storage.clone())
            .mass_storage(self.mass_storage.clone())
            .build()
    }
    pub fn describe(&self, p: &dyn Problem) -> Value {
        json!({
            "method": mname(self.method),
            "problem": p.describe(),
            "x0": crate::util::jf(self.x0),
            "xend": crate::util::jf(self.xend),
            "y0": self.y0,
            "rtol": self.rtol.describe(),
            "atol": self.atol.describe(),
            "first_step": self.first_step,
            "max_step": self.max_step.map(crate::util::jn),
            "min_step": self.min_step,
            "max_steps": self.max_steps,
            "t_eval": self.t_eval.as_ref().map(|t| crate::util::jv_trunc(t, 12)),
            "dense_output": self.dense,
            "events": self.events.iter().map(|e| e.describe()).collect::<Vec<_>>(),
            "user_jac": self.user_jac,
            "jac_storage": format!("{:?}", self.jac_storage),
            "mass_storage": format!("{:?}", self.mass_storage),
        })
    }
}

pub enum Outcome {
    Ok(Solution),
    Err(String),
    Panic(String),
    Budget,
}
impl Outcome {
    pub fn sol(&self) -> Option<&Solution> {
        match self {
            Outcome::Ok(s) => Some(s),
            _ => None,
        }
    }
    pub fn tag(&self) -> String {
        match self {
            Outcome::Ok(s) => format!("{:?}", s.status),
            Outcome::Err(e) => format!("Err({})", e),
            Outcome::Panic(m) => format!("Panic({})", m),
            Outcome::Budget => "Budget".into(),
        }
    }
}

pub struct RunRes {
    pub out: Outcome,
    pub log: ProbeLog,
}

/// Run solve_ivp on `p` under scenario `scn` with a recording, budgeted probe.
pub fn run_solve(p: &dyn Problem, scn: &Scn, keep_calls: bool, keep_y: bool) -> RunRes {
    let mut probe = Probe::new(p, scn.x0);
    probe.events = scn.events.clone();
    probe.user_jac = scn.user_jac;
    probe.supply_mass = scn.supply_mass;
    probe.keep_calls = keep_calls;
    probe.keep_y = keep_y;
    probe.budget = scn.budget;
    LAST_PANIC.with(|p| p.borrow_mut().clear());
    let r = std::panic::catch_unwind(std::panic::AssertUnwindSafe(|| {
        solve_ivp(&probe, scn.x0, scn.xend, &scn.y0, scn.options())
    }));
    probe.in_jac.set(false);
    let out = match r {
        Ok(Ok(s)) => Outcome::Ok(s),
        Ok(Err(e)) => Outcome::Err(format!("{:?}", e)),
        Err(pl) => {
            if pl.downcast_ref::<BudgetExceeded>().is_some() {
                Outcome::Budget
            } else {
                Outcome::Panic(panic_message(&pl))
            }
        }
    };
    RunRes { out, log: probe.take_log() }
}

// ------------------------------------------------------------------------------------------
// Low-level builders + recording SolOut
// ------------------------------------------------------------------------------------------

#[derive(Clone, Debug)]
pub struct LowOpts {
    pub first_step: Option<f64>,
    pub max_step: Option<f64>,
    pub max_steps: Option<usize>,
    pub dense: bool,
    pub newton_tol: Option<f64>,
    pub newton_maxiter: Option<usize>,
    pub jac_storage: MatrixStorage,
    /// None = builder default
    pub mass_storage: Option<MatrixStorage>,
    /// run the solver without any SolOut (callback-free twin)
    pub no_callback: bool,
}
impl Default for LowOpts {
    fn default() -> Self {
        LowOpts {
            first_step: None,
            max_step: None,
            max_steps: None,
            dense: true,
            newton_tol: None,
            newton_maxiter: None,
            jac_storage: MatrixStorage::Full,
            mass_storage: Some(MatrixStorage::Identity),
            no_callback: false,
        }
    }
}

pub fn run_low<F: IVP, S: SolOut>(
    method: Method,
    f: &F,
    x0: f64,
    y0: &[f64],
    xend: f64,
    rtol: &Tol,
    atol: &Tol,
    lo: &LowOpts,
    so: &mut S,
) -> Result<IntegrationResult, String> {
    let so: Option<&mut S> = if lo.no_callback { None } else { Some(so) };
    let r = match method {
        Method::RK4 => {
            let h = lo.first_step.unwrap_or((xend - x0) / 100.0);
            let s = RK4::builder()
                .max_steps(lo.max_steps.unwrap_or(usize::MAX))
                .dense_output(lo.dense)
                .build();
            s.solve(f, x0, y0, xend, h, so)
        }
        Method::RK23 => RK23::builder()
            .maybe_max_step(lo.max_step)
            .maybe_first_step(lo.first_step)
            .max_steps(lo.max_steps.unwrap_or(usize::MAX))
            .dense_output(lo.dense)
            .build()
            .solve(f, x0, y0, xend, rtol.to_tolerance(), atol.to_tolerance(), so),
        Method::DOPRI5 => DOPRI5::builder()
            .maybe_max_step(lo.max_step)
            .maybe_first_step(lo.first_step)
            .max_steps(lo.max_steps.unwrap_or(usize::MAX))
            .dense_output(lo.dense)
            .build()
            .solve(f, x0, y0, xend, rtol.to_tolerance(), atol.to_tolerance(), so),
        Method::DOP853 => DOP853::builder()
            .maybe_max_step(lo.max_step)
            .maybe_first_step(lo.first_step)
            .max_steps(lo.max_steps.unwrap_or(usize::MAX))
            .dense_output(lo.dense)
            .build()
            .solve(f, x0, y0, xend, rtol.to_tolerance(), atol.to_tolerance(), so),
        Method::RADAU => {
            let b = RADAU::builder()
                .maybe_max_step(lo.max_step)
                .maybe_first_step(lo.first_step)
                .max_steps(lo.max_steps.unwrap_or(usize::MAX))
                .dense_output(lo.dense)
                .maybe_newton_tol(lo.newton_tol)
                .maybe_newton_maxiter(lo.newton_maxiter)
                .jac_storage(lo.jac_storage.clone())
                .maybe_mass_storage(lo.mass_storage.clone());
            b.build()
                .solve(f, x0, y0, xend, rtol.to_tolerance(), atol.to_tolerance(), so)
        }
        Method::BDF => BDF::builder()
            .maybe_max_step(lo.max_step)
            .maybe_first_step(lo.first_step)
            .max_steps(lo.max_steps.unwrap_or(usize::MAX))
            .maybe_newton_tol(lo.newton_tol)
            .maybe_newton_maxiter(lo.newton_maxiter)
            .jac_storage(lo.jac_storage.clone())
            .build()
            .solve(f, x0, y0, xend, rtol.to_tolerance(), atol.to_tolerance(), so),
    };
    r.map_err(|e| format!("{:?}", e))
}

#[derive(Clone, Debug)]
pub enum Action {
    Interrupt,
    /// write y <- factor * y and return ModifiedSolution (factor 1.0 = unchanged state)
    Scale(f64),
    /// return ModifiedSolution after writing this state
    Set(Vec<f64>),
    /// return XOut(x): ask for an interpolant once the integration has reached x (dense output on demand)
    XOut(f64),
}

#[derive(Clone, Debug)]
pub struct Cb {
    pub xold: f64,
    pub x: f64,
    pub y: Vec<f64>,
    pub y_after: Vec<f64>,
    pub has_interp: bool,
    /// total probe ode calls (stepper + jac) when the callback was entered
    pub calls_at_entry: u64,
    /// interpolant evaluated at xold + theta (x - xold) for each theta in `thetas`
    pub interp: Vec<Vec<f64>>,
    pub action: Option<Action>,
    /// copy of the dense coefficients of the step (when keep_seg)
    pub cont: Vec<f64>,
    /// (xold, h) the interpolant itself reports
    pub step_params: Option<(f64, f64)>,
}

pub struct RecSolOut<'p, 'a> {
    pub probe: Option<&'p Probe<'a>>,
    pub cbs: Vec<Cb>,
    pub thetas: Vec<f64>,
    /// (callback index, action)
    pub script: Vec<(usize, Action)>,
    pub max_cbs: usize,
    pub keep_seg: bool,
}

impl<'p, 'a> RecSolOut<'p, 'a> {
    pub fn new(probe: Option<&'p Probe<'a>>) -> Self {
        RecSolOut { probe, cbs: Vec::new(), thetas: Vec::new(), script: Vec::new(), max_cbs: 2_000_000, keep_seg: false }
    }
}

impl<'p, 'a> SolOut for RecSolOut<'p, 'a> {
    fn solout(&mut self, xold: f64, x: &mut f64, y: &mut [f64], interpolant: Option<&StepInterpolant<'_>>) -> ControlFlag {
        let idx = self.cbs.len();
        let calls = self.probe.map(|p| p.total_ode()).unwrap_or(0);
        let mut interp = Vec::new();
        let mut cont = Vec::new();
        let mut step_params = None;
        if let Some(ip) = interpolant {
            step_params = Some(ip.step_params());
            if self.keep_seg {
                cont = ip.to_segment().cont;
            }
            for &th in &self.thetas {
                let xi = if th == 0.0 {
                    xold
                } else if th == 1.0 {
                    *x
                } else {
                    xold + th * (*x - xold)
                };
                let mut yi = vec![0.0; y.len()];
                ip.interpolate(xi, &mut yi);
                interp.push(yi);
            }
        }
        let ybefore = y.to_vec();
        let action = self.script.iter().find(|(k, _)| *k == idx).map(|(_, a)| a.clone());
        let flag = match &action {
            None => ControlFlag::Continue,
            Some(Action::Interrupt) => ControlFlag::Interrupt,
            Some(Action::Scale(f)) => {
                if *f != 1.0 {
                    for v in y.iter_mut() {
                        *v *= *f;
                    }
                }
                ControlFlag::ModifiedSolution
            }
            Some(Action::Set(v)) => {
                y.copy_from_slice(v);
                ControlFlag::ModifiedSolution
            }
            Some(Action::XOut(xo)) => ControlFlag::XOut(*xo),
        };
        self.cbs.push(Cb {
            xold,
            x: *x,
            y: ybefore,
            y_after: y.to_vec(),
            has_interp: interpolant.is_some(),
            calls_at_entry: calls,
            interp,
            action,
            cont,
            step_params,
        });
        if self.cbs.len() > self.max_cbs {
            std::panic::panic_any(BudgetExceeded);
        }
        flag
    }
}

pub enum LowOutcome {
    Ok(IntegrationResult),
    Err(String),
    Panic(String),
    Budget,
}

/// Run a low-level builder with a recording SolOut under catch_unwind.
pub fn run_low_guarded(
    method: Method,
    probe: &Probe<'_>,
    x0: f64,
    y0: &[f64],
    xend: f64,
    rtol: &Tol,
    atol: &Tol,
    lo: &LowOpts,
    so: &mut RecSolOut<'_, '_>,
) -> LowOutcome {
    LAST_PANIC.with(|p| p.borrow_mut().clear());
    let r = std::panic::catch_unwind(std::panic::AssertUnwindSafe(|| run_low(method, probe, x0, y0, xend, rtol, atol, lo, so)));
    probe.in_jac.set(false);
    match r {
        Ok(Ok(ir)) => LowOutcome::Ok(ir),
        Ok(Err(e)) => LowOutcome::Err(e),
        Err(pl) => {
            if pl.downcast_ref::<BudgetExceeded>().is_some() {
                LowOutcome::Budget
            } else {
                LowOutcome::Panic(panic_message(&pl))
            }
        }
    }
}
