//! Problem families. `Composite` = closed-form base problems stacked, time-warped and mixed;
//! `Simple` = bounded benchmark problems without closed form (used by the discipline monitors);
//! hostile and stiff families live here too.

use crate::rng::Rng;
use serde_json::{json, Value};

pub trait Problem: Send + Sync {
    fn dim(&self) -> usize;
    fn f(&self, t: f64, y: &[f64], dy: &mut [f64]);
    fn exact(&self, _t: f64) -> Option<Vec<f64>> {
        None
    }
    /// dense analytic Jacobian df/dy (row-major rows)
    fn jac_dense(&self, _t: f64, _y: &[f64]) -> Option<Vec<Vec<f64>>> {
        None
    }
    /// mass matrix (dense), None = identity / not supplied
    fn mass_dense(&self) -> Option<Vec<Vec<f64>>> {
        None
    }
    fn describe(&self) -> Value;
}

// ------------------------------------------------------------------------------------------
// Closed-form bases
// ------------------------------------------------------------------------------------------

#[derive(Clone, Debug)]
pub enum Base {
    Lin1 { lam: f64, u0: f64 },
    Rot { a: f64, w: f64, u0: [f64; 2] },
    Logistic { r: f64, k: f64, u0: f64 },
    Tan { u0: f64 },
    Tanh { a: f64, u0: f64 },
    Bern { a: f64, b: f64, u0: f64 },
    Rat { u0: f64 },
    /// Prothero-Robinson: u' = lam (u - sin(om s)) + om cos(om s)
    PR { lam: f64, om: f64, u0: f64 },
    /// nonlinear Prothero-Robinson: with e = u - sin(om s), u' = lam e (1 + e^2) + om cos(om s); the Jacobian
    /// lam (1 + 3 e^2) depends on the state; e^2/(1+e^2) = C exp(2 lam tau) in closed form
    NPR { lam: f64, om: f64, u0: f64 },
    /// cubic Prothero-Robinson: u' = lam (u^3 - phi^3) + phi', phi = 2 + sin(om s); the Jacobian 3 lam u^2 varies along
    /// the slow manifold itself. Closed form only ON the manifold (u0 = phi(s0)): u = phi.
    CPR { lam: f64, om: f64, u0: f64 },
}

impl Base {
    pub fn dim(&self) -> usize {
        match self {
            Base::Rot { .. } => 2,
            _ => 1,
        }
    }
    pub fn u0(&self) -> Vec<f64> {
        match self {
            Base::Lin1 { u0, .. }
            | Base::Logistic { u0, .. }
            | Base::Tan { u0 }
            | Base::Tanh { u0, .. }
            | Base::Bern { u0, .. }
            | Base::Rat { u0 }
            | Base::PR { u0, .. }
            | Base::NPR { u0, .. }
            | Base::CPR { u0, .. } => vec![*u0],
            Base::Rot { u0, .. } => u0.to_vec(),
        }
    }
    pub fn is_linear_homogeneous(&self) -> bool {
        matches!(self, Base::Lin1 { .. } | Base::Rot { .. })
    }
    pub fn g(&self, s: f64, u: &[f64], du: &mut [f64]) {
        match *self {
            Base::Lin1 { lam, .. } => du[0] = lam * u[0],
            Base::Rot { a, w, .. } => {
                du[0] = a * u[0] - w * u[1];
                du[1] = w * u[0] + a * u[1];
            }
            Base::Logistic { r, k, .. } => du[0] = r * u[0] * (1.0 - u[0] / k),
            Base::Tan { .. } => du[0] = 1.0 + u[0] * u[0],
            Base::Tanh { a, .. } => du[0] = a * a - u[0] * u[0],
            Base::Bern { a, b, .. } => du[0] = a * u[0] - b * u[0] * u[0] * u[0],
            Base::Rat { .. } => du[0] = -u[0] * u[0],
            Base::PR { lam, om, .. } => du[0] = lam * (u[0] - (om * s).sin()) + om * (om * s).cos(),
            Base::NPR { lam, om, .. } => {
                let e = u[0] - (om * s).sin();
                du[0] = lam * e * (1.0 + e * e) + om * (om * s).cos();
            }
            Base::CPR { lam, om, .. } => {
                let ph = 2.0 + (om * s).sin();
                du[0] = lam * (u[0] * u[0] * u[0] - ph * ph * ph) + om * (om * s).cos();
            }
        }
    }
    /// d g / d u as a (dim x dim) block
    pub fn dg(&self, s: f64, u: &[f64]) -> Vec<Vec<f64>> {
        match *self {
            Base::Lin1 { lam, .. } => vec![vec![lam]],
            Base::Rot { a, w, .. } => vec![vec![a, -w], vec![w, a]],
            Base::Logistic { r, k, .. } => vec![vec![r * (1.0 - 2.0 * u[0] / k)]],
            Base::Tan { .. } => vec![vec![2.0 * u[0]]],
            Base::Tanh { .. } => vec![vec![-2.0 * u[0]]],
            Base::Bern { a, b, .. } => vec![vec![a - 3.0 * b * u[0] * u[0]]],
            Base::Rat { .. } => vec![vec![-2.0 * u[0]]],
            Base::PR { lam, .. } => vec![vec![lam]],
            Base::NPR { lam, om, .. } => {
                let e = u[0] - (om * s).sin();
                vec![vec![lam * (1.0 + 3.0 * e * e)]]
            }
            Base::CPR { lam, .. } => vec![vec![3.0 * lam * u[0] * u[0]]],
        }
    }
    /// exact solution at s when u(s0) = u0
    pub fn exact(&self, s: f64, s0: f64) -> Vec<f64> {
        let tau = s - s0;
        match *self {
            Base::Lin1 { lam, u0 } => vec![u0 * (lam * tau).exp()],
            Base::Rot { a, w, u0 } => {
                let e = (a * tau).exp();
                let (sn, cs) = (w * tau).sin_cos();
                vec![e * (cs * u0[0] - sn * u0[1]), e * (sn * u0[0] + cs * u0[1])]
            }
            Base::Logistic { r, k, u0 } => {
                let c = k / u0 - 1.0;
                vec![k / (1.0 + c * (-r * tau).exp())]
            }
            Base::Tan { u0 } => vec![(tau + u0.atan()).tan()],
            Base::Tanh { a, u0 } => vec![a * (a * tau + (u0 / a).atanh()).tanh()],
            Base::Bern { a, b, u0 } => {
                let c = a / (u0 * u0) - b;
                vec![(a / (b + c * (-2.0 * a * tau).exp())).sqrt() * u0.signum()]
            }
            Base::Rat { u0 } => vec![u0 / (1.0 + u0 * tau)],
            Base::PR { lam, om, u0 } => {
                vec![(om * s).sin() + (lam * tau).exp() * (u0 - (om * s0).sin())]
            }
            Base::NPR { lam, om, u0 } => {
                let e0 = u0 - (om * s0).sin();
                let c = e0 * e0 / (1.0 + e0 * e0);
                let z = c * (2.0 * lam * tau).exp();
                // |e| = sqrt(z / (1 - z)) written so that it does not lose the decaying factor to underflow of z
                let e = e0.abs() / (1.0 + e0 * e0).sqrt() * (lam * tau).exp() / (1.0 - z).sqrt();
                vec![(om * s).sin() + e0.signum() * e]
            }
            Base::CPR { om, .. } => vec![2.0 + (om * s).sin()],
        }
    }
    /// |d u(s) / d u0| (sensitivity to the initial value), used for the amplification factor
    pub fn sens(&self, s: f64, s0: f64) -> f64 {
        let tau = s - s0;
        let u = self.exact(s, s0)[0];
        match *self {
            Base::Lin1 { lam, .. } => (lam * tau).exp(),
            Base::Rot { a, .. } => (a * tau).exp(),
            Base::Logistic { r, u0, .. } => (u / u0).powi(2) * (-r * tau).exp(),
            Base::Tan { u0 } => (1.0 + u * u) / (1.0 + u0 * u0),
            Base::Tanh { a, u0 } => (a * a - u * u) / (a * a - u0 * u0),
            Base::Bern { a, u0, .. } => (u / u0).powi(3).abs() * (-2.0 * a * tau).exp(),
            Base::Rat { u0 } => (u / u0).powi(2),
            Base::PR { lam, .. } => (lam * tau).exp(),
            Base::NPR { lam, om, u0 } => {
                let e0 = u0 - (om * s0).sin();
                let z = e0 * e0 / (1.0 + e0 * e0) * (2.0 * lam * tau).exp();
                (lam * tau).exp() / ((1.0 + e0 * e0).powf(1.5) * (1.0 - z).powf(1.5))
            }
            // linearisation about the manifold: e' = 3 lam phi^2 e with phi >= 1
            Base::CPR { lam, .. } => (3.0 * lam * tau).exp().min(1.0),
        }
    }
    /// whether the closed form is regular on [s0, s1] (either order) with margin
    pub fn regular(&self, s0: f64, s1: f64) -> bool {
        let tau = s1 - s0;
        match *self {
            Base::Tan { u0 } => {
                let th0 = u0.atan();
                (th0 + tau).abs() < 1.25 && th0.abs() < 1.25
            }
            Base::Rat { u0 } => 1.0 + u0 * tau > 0.25 && u0 > 0.0,
            Base::Bern { a, b, u0 } => a > 0.0 && b > 0.0 && a / (u0 * u0) - b > 0.0,
            Base::Tanh { a, u0 } => (u0 / a).abs() < 0.95,
            Base::Logistic { k, u0, .. } => u0 > 0.0 && u0 < k,
            Base::NPR { lam, om, u0 } => {
                let e0 = u0 - (om * s0).sin();
                e0 * e0 / (1.0 + e0 * e0) * (2.0 * lam * tau).exp().max(1.0) < 0.9
            }
            _ => true,
        }
    }
    pub fn describe(&self) -> Value {
        json!(format!("{:?}", self))
    }
}

#[derive(Clone, Debug)]
pub enum Warp {
    Id,
    Sin { a: f64, b: f64 },
    Exp { a: f64 },
}
impl Warp {
    pub fn phi(&self, t: f64) -> f64 {
        match *self {
            Warp::Id => t,
            Warp::Sin { a, b } => t + a * (b * t).sin() / b,
            Warp::Exp { a } => ((a * t).exp() - 1.0) / a,
        }
    }
    pub fn dphi(&self, t: f64) -> f64 {
        match *self {
            Warp::Id => 1.0,
            Warp::Sin { a, b } => 1.0 + a * (b * t).cos(),
            Warp::Exp { a } => (a * t).exp(),
        }
    }
}

#[derive(Clone, Debug)]
pub struct Mix {
    pub p: Vec<Vec<f64>>,
    pub pinv: Vec<Vec<f64>>,
    pub cond: f64,
}
impl Mix {
    pub fn random(n: usize, rng: &mut Rng) -> Mix {
        // Q = product of Givens rotations, D diagonal in [0.6, 1.8]
        let mut q = vec![vec![0.0; n]; n];
        for i in 0..n {
            q[i][i] = 1.0;
        }
        for _ in 0..(2 * n) {
            if n < 2 {
                break;
            }
            let i = rng.below(n);
            let mut j = rng.below(n);
            if i == j {
                j = (j + 1) % n;
            }
            let th = rng.range(-1.5, 1.5);
            let (s, c) = th.sin_cos();
            for k in 0..n {
                let a = q[k][i];
                let b = q[k][j];
                q[k][i] = c * a - s * b;
                q[k][j] = s * a + c * b;
            }
        }
        let d: Vec<f64> = (0..n).map(|_| rng.range(0.6, 1.8)).collect();
        let mut p = vec![vec![0.0; n]; n];
        let mut pinv = vec![vec![0.0; n]; n];
        for i in 0..n {
            for j in 0..n {
                p[i][j] = q[i][j] * d[j];
                pinv[i][j] = q[j][i] / d[i];
            }
        }
        let dmax = d.iter().cloned().fold(0.0, f64::max);
        let dmin = d.iter().cloned().fold(f64::INFINITY, f64::min);
        Mix { p, pinv, cond: dmax / dmin }
    }
}

fn matvec(a: &[Vec<f64>], x: &[f64]) -> Vec<f64> {
    a.iter().map(|r| r.iter().zip(x).map(|(p, q)| p * q).sum()).collect()
}

/// y = P u(phi(t)), u stacked from bases; y' = phi'(t) P g(phi(t), P^-1 y)
#[derive(Clone, Debug)]
pub struct Composite {
    pub bases: Vec<Base>,
    pub warp: Warp,
    pub mix: Option<Mix>,
    pub x0: f64,
    pub n: usize,
}

impl Composite {
    pub fn new(bases: Vec<Base>, warp: Warp, mix: Option<Mix>, x0: f64) -> Self {
        let n = bases.iter().map(|b| b.dim()).sum();
        Composite { bases, warp, mix, x0, n }
    }
    pub fn s0(&self) -> f64 {
        self.warp.phi(self.x0)
    }
    pub fn y0(&self) -> Vec<f64> {
        self.exact(self.x0).unwrap()
    }
    pub fn u_exact(&self, t: f64) -> Vec<f64> {
        let s = self.warp.phi(t);
        let s0 = self.s0();
        let mut u = Vec::with_capacity(self.n);
        for b in &self.bases {
            u.extend(b.exact(s, s0));
        }
        u
    }
    pub fn regular(&self, xend: f64) -> bool {
        let s0 = self.s0();
        let s1 = self.warp.phi(xend);
        self.bases.iter().all(|b| b.regular(s0, s1))
            && self.u_exact(xend).iter().all(|v| v.is_finite())
    }
    /// Upper bound for the amplification of local errors over [x0, xend]:
    /// max over grid pairs (tau before t in integration order) of S(t)/S(tau), times cond(P).
    pub fn amplification(&self, xend: f64) -> f64 {
        let s0 = self.s0();
        let m = 48;
        let mut amp: f64 = 1.0;
        for b in &self.bases {
            let ss: Vec<f64> = (0..=m)
                .map(|i| {
                    let t = self.x0 + (xend - self.x0) * i as f64 / m as f64;
                    b.sens(self.warp.phi(t), s0).abs()
                })
                .collect();
            let mut minsofar = f64::INFINITY;
            for &s in &ss {
                minsofar = minsofar.min(s);
                if minsofar > 0.0 {
                    amp = amp.max(s / minsofar);
                }
            }
        }
        amp * self.mix.as_ref().map(|m| m.cond).unwrap_or(1.0)
    }
    pub fn is_linear_homogeneous(&self) -> bool {
        self.bases.iter().all(|b| b.is_linear_homogeneous())
    }
}

impl Problem for Composite {
    fn dim(&self) -> usize {
        self.n
    }
    fn f(&self, t: f64, y: &[f64], dy: &mut [f64]) {
        let s = self.warp.phi(t);
        let dphi = self.warp.dphi(t);
        let u: Vec<f64> = match &self.mix {
            Some(m) => matvec(&m.pinv, y),
            None => y.to_vec(),
        };
        let mut du = vec![0.0; self.n];
        let mut off = 0;
        for b in &self.bases {
            let d = b.dim();
            b.g(s, &u[off..off + d], &mut du[off..off + d]);
            off += d;
        }
        match &self.mix {
            Some(m) => {
                let v = matvec(&m.p, &du);
                for i in 0..self.n {
                    dy[i] = dphi * v[i];
                }
            }
            None => {
                for i in 0..self.n {
                    dy[i] = dphi * du[i];
                }
            }
        }
    }
    fn exact(&self, t: f64) -> Option<Vec<f64>> {
        let u = self.u_exact(t);
        Some(match &self.mix {
            Some(m) => matvec(&m.p, &u),
            None => u,
        })
    }
    fn jac_dense(&self, t: f64, y: &[f64]) -> Option<Vec<Vec<f64>>> {
        let s = self.warp.phi(t);
        let dphi = self.warp.dphi(t);
        let n = self.n;
        let u: Vec<f64> = match &self.mix {
            Some(m) => matvec(&m.pinv, y),
            None => y.to_vec(),
        };
        let mut g = vec![vec![0.0; n]; n];
        let mut off = 0;
        for b in &self.bases {
            let d = b.dim();
            let blk = b.dg(s, &u[off..off + d]);
            for i in 0..d {
                for j in 0..d {
                    g[off + i][off + j] = blk[i][j];
                }
            }
            off += d;
        }
        let mut j = vec![vec![0.0; n]; n];
        match &self.mix {
            Some(m) => {
                // P G Pinv
                let mut pg = vec![vec![0.0; n]; n];
                for i in 0..n {
                    for k in 0..n {
                        if m.p[i][k] == 0.0 {
                            continue;
                        }
                        for l in 0..n {
                            pg[i][l] += m.p[i][k] * g[k][l];
                        }
                    }
                }
                for i in 0..n {
                    for k in 0..n {
                        for l in 0..n {
                            j[i][l] += pg[i][k] * m.pinv[k][l];
                        }
                    }
                }
            }
            None => j = g,
        }
        for r in j.iter_mut() {
            for v in r.iter_mut() {
                *v *= dphi;
            }
        }
        Some(j)
    }
    fn describe(&self) -> Value {
        json!({
            "family": "composite",
            "bases": self.bases.iter().map(|b| b.describe()).collect::<Vec<_>>(),
            "warp": format!("{:?}", self.warp),
            "mixed": self.mix.is_some(),
            "cond": self.mix.as_ref().map(|m| m.cond),
            "mix_matrix": self.mix.as_ref().filter(|m| m.p.len() <= 8).map(|m| m.p.clone()),
            "x0": self.x0,
        })
    }
}

pub fn random_base(rng: &mut Rng, stable_dir: f64) -> Base {
    // stable_dir = +1 when s increases along the integration, -1 otherwise: pick rates so that
    // the direction of integration is the stable or neutral one most of the time.
    match rng.below(9) {
        0 => Base::Lin1 { lam: -stable_dir * rng.logu(0.05, 3.0), u0: rng.sign() * rng.range(0.3, 2.0) },
        1 | 2 => Base::Rot {
            a: -stable_dir * rng.range(0.0, 0.6),
            w: rng.sign() * rng.logu(0.3, 6.0),
            u0: [rng.range(-1.5, 1.5), rng.range(0.3, 1.5)],
        },
        3 => {
            let k = rng.range(0.8, 3.0);
            Base::Logistic { r: stable_dir * rng.range(0.3, 2.5), k, u0: k * rng.range(0.1, 0.9) }
        }
        4 => Base::Tan { u0: rng.range(-0.5, 0.5) },
        5 => {
            let a = rng.range(0.5, 2.0);
            Base::Tanh { a, u0: a * rng.range(-0.9, 0.9) }
        }
        6 => {
            let a = rng.range(0.3, 2.0) * stable_dir.max(0.0) + rng.range(0.3, 1.0) * (1.0 - stable_dir.max(0.0));
            let b = rng.range(0.3, 2.0);
            let umax = (a / b).sqrt();
            Base::Bern { a, b, u0: umax * rng.range(0.15, 0.9) }
        }
        7 => Base::Rat { u0: rng.range(0.3, 2.0) },
        _ => Base::PR {
            lam: -stable_dir * rng.logu(0.2, 20.0),
            om: rng.range(0.5, 4.0),
            u0: rng.range(-1.0, 1.0),
        },
    }
}

/// Random closed-form problem on [x0, xend] with amplification <= amp_max; returns (problem, amp).
pub fn random_composite(rng: &mut Rng, x0: f64, xend: f64, max_dim: usize, amp_max: f64) -> (Composite, f64) {
    for attempt in 0..200 {
        let warp = match rng.below(if attempt > 100 { 1 } else { 4 }) {
            0 | 1 => Warp::Id,
            2 => Warp::Sin { a: rng.range(-0.6, 0.6), b: rng.range(0.5, 3.0) },
            _ => {
                // keep exp warp mild over the span
                let span = (xend.abs()).max(x0.abs()).max(1e-3);
                Warp::Exp { a: rng.sign() * rng.range(0.05, 0.5) / span.max(1.0) }
            }
        };
        let dir_t = (xend - x0).signum();
        let want = 1 + rng.below(max_dim.max(1));
        let mut bases = Vec::new();
        let mut n = 0;
        while n < want {
            let b = random_base(rng, dir_t);
            if n + b.dim() > want {
                continue;
            }
            n += b.dim();
            bases.push(b);
        }
        let mix = if n >= 2 && rng.chance(0.6) { Some(Mix::random(n, rng)) } else { None };
        let c = Composite::new(bases, warp, mix, x0);
        if !c.regular(xend) {
            continue;
        }
        // regular on the whole span, not only at the end
        let mut ok = true;
        for i in 0..=16 {
            let t = x0 + (xend - x0) * i as f64 / 16.0;
            let s0 = c.s0();
            let s = c.warp.phi(t);
            if !c.bases.iter().all(|b| b.regular(s0, s)) {
                ok = false;
                break;
            }
        }
        if !ok {
            continue;
        }
        let amp = c.amplification(xend);
        if !(amp.is_finite()) || amp > amp_max {
            continue;
        }
        let y0 = c.y0();
        if y0.iter().any(|v| !v.is_finite() || v.abs() > 1e3) {
            continue;
        }
        return (c, amp);
    }
    // fallback: plain decay in the direction of integration
    let dir_t = (xend - x0).signum();
    let c = Composite::new(vec![Base::Lin1 { lam: -dir_t * 0.5, u0: 1.0 }], Warp::Id, None, x0);
    let amp = c.amplification(xend);
    (c, amp)
}

// ------------------------------------------------------------------------------------------
// Bounded benchmark problems (no closed form needed)
// ------------------------------------------------------------------------------------------

#[derive(Clone, Debug)]
pub enum Simple {
    /// y0' = y1, y1' = -y0 - d y1 + a sin(w t)
    Osc { d: f64, a: f64, w: f64 },
    VdP { mu: f64 },
    /// Lotka-Volterra
    LV { a: f64, b: f64, c: f64, d: f64 },
    Pend { g: f64, d: f64 },
    /// y' = -k y + sin(t)  (scalar)
    Forced { k: f64 },
    /// y' = -y + sign(sin(w t)) : discontinuous forcing, bounded
    Disc { w: f64 },
    /// 3-d linear rotation with slight damping
    Lin3 { d: f64 },
    /// zero right-hand side of dimension n
    Zero { n: usize },
    /// y' = cos(t) (pure quadrature, 2 comps)
    Quad,
}

impl Simple {
    pub fn random(rng: &mut Rng) -> Simple {
        match rng.below(8) {
            0 | 1 => Simple::Osc { d: rng.range(0.0, 0.3), a: rng.range(0.0, 1.0), w: rng.range(0.3, 3.0) },
            2 => Simple::VdP { mu: rng.range(0.2, 3.0) },
            3 => Simple::LV { a: rng.range(0.5, 1.5), b: rng.range(0.5, 1.5), c: rng.range(0.5, 1.5), d: rng.range(0.5, 1.5) },
            4 => Simple::Pend { g: rng.range(1.0, 9.0), d: rng.range(0.0, 0.2) },
            5 => Simple::Forced { k: rng.range(0.1, 3.0) },
            6 => Simple::Disc { w: rng.range(1.0, 5.0) },
            _ => Simple::Lin3 { d: rng.range(0.0, 0.2) },
        }
    }
    /// bounded in both time directions (no growth when integrated backward)
    pub fn random_bidirectional(rng: &mut Rng) -> Simple {
        match rng.below(5) {
            0 | 1 => Simple::Osc { d: 0.0, a: rng.range(0.0, 1.0), w: rng.range(0.3, 3.0) },
            2 => Simple::LV { a: rng.range(0.5, 1.5), b: rng.range(0.5, 1.5), c: rng.range(0.5, 1.5), d: rng.range(0.5, 1.5) },
            3 => Simple::Pend { g: rng.range(1.0, 9.0), d: 0.0 },
            _ => Simple::Lin3 { d: 0.0 },
        }
    }
    pub fn y0(&self, rng: &mut Rng) -> Vec<f64> {
        match self {
            Simple::Osc { .. } => vec![rng.range(-1.5, 1.5), rng.range(-1.5, 1.5)],
            Simple::VdP { .. } => vec![rng.range(-2.0, 2.0), rng.range(-1.0, 1.0)],
            Simple::LV { .. } => vec![rng.range(0.5, 2.0), rng.range(0.5, 2.0)],
            Simple::Pend { .. } => vec![rng.range(-1.5, 1.5), rng.range(-1.0, 1.0)],
            Simple::Forced { .. } => vec![rng.range(-2.0, 2.0)],
            Simple::Disc { .. } => vec![rng.range(-1.0, 1.0)],
            Simple::Lin3 { .. } => vec![rng.range(-1.0, 1.0), rng.range(-1.0, 1.0), rng.range(0.2, 1.0)],
            Simple::Zero { n } => (0..*n).map(|_| rng.range(-1.0, 1.0)).collect(),
            Simple::Quad => vec![rng.range(-1.0, 1.0), rng.range(-1.0, 1.0)],
        }
    }
}

impl Problem for Simple {
    fn dim(&self) -> usize {
        match self {
            Simple::Forced { .. } | Simple::Disc { .. } => 1,
            Simple::Lin3 { .. } => 3,
            Simple::Zero { n } => *n,
            _ => 2,
        }
    }
    fn f(&self, t: f64, y: &[f64], dy: &mut [f64]) {
        match *self {
            Simple::Osc { d, a, w } => {
                dy[0] = y[1];
                dy[1] = -y[0] - d * y[1] + a * (w * t).sin();
            }
            Simple::VdP { mu } => {
                dy[0] = y[1];
                dy[1] = mu * (1.0 - y[0] * y[0]) * y[1] - y[0];
            }
            Simple::LV { a, b, c, d } => {
                dy[0] = a * y[0] - b * y[0] * y[1];
                dy[1] = -c * y[1] + d * y[0] * y[1];
            }
            Simple::Pend { g, d } => {
                dy[0] = y[1];
                dy[1] = -g * y[0].sin() - d * y[1];
            }
            Simple::Forced { k } => dy[0] = -k * y[0] + t.sin(),
            Simple::Disc { w } => dy[0] = -y[0] + if (w * t).sin() >= 0.0 { 1.0 } else { -1.0 },
            Simple::Lin3 { d } => {
                dy[0] = -d * y[0] - 1.3 * y[1];
                dy[1] = 1.3 * y[0] - d * y[1] + 0.4 * y[2];
                dy[2] = -0.4 * y[1] - d * y[2];
            }
            Simple::Zero { n } => {
                for i in 0..n {
                    dy[i] = 0.0;
                }
            }
            Simple::Quad => {
                dy[0] = t.cos();
                dy[1] = -(2.0 * t).sin();
            }
        }
    }
    fn jac_dense(&self, _t: f64, y: &[f64]) -> Option<Vec<Vec<f64>>> {
        Some(match *self {
            Simple::Osc { d, .. } => vec![vec![0.0, 1.0], vec![-1.0, -d]],
            Simple::VdP { mu } => vec![vec![0.0, 1.0], vec![-2.0 * mu * y[0] * y[1] - 1.0, mu * (1.0 - y[0] * y[0])]],
            Simple::LV { a, b, c, d } => vec![vec![a - b * y[1], -b * y[0]], vec![d * y[1], -c + d * y[0]]],
            Simple::Pend { g, d } => vec![vec![0.0, 1.0], vec![-g * y[0].cos(), -d]],
            Simple::Forced { k } => vec![vec![-k]],
            Simple::Disc { .. } => vec![vec![-1.0]],
            Simple::Lin3 { d } => vec![vec![-d, -1.3, 0.0], vec![1.3, -d, 0.4], vec![0.0, -0.4, -d]],
            Simple::Zero { n } => vec![vec![0.0; n]; n],
            Simple::Quad => vec![vec![0.0; 2]; 2],
        })
    }
    fn describe(&self) -> Value {
        json!({"family": "simple", "kind": format!("{:?}", self)})
    }
}

// ------------------------------------------------------------------------------------------
// Stiff benchmarks
// ------------------------------------------------------------------------------------------

#[derive(Clone, Debug)]
pub struct Robertson;
impl Problem for Robertson {
    fn dim(&self) -> usize {
        3
    }
    fn f(&self, _t: f64, y: &[f64], dy: &mut [f64]) {
        dy[0] = -0.04 * y[0] + 1.0e4 * y[1] * y[2];
        dy[1] = 0.04 * y[0] - 1.0e4 * y[1] * y[2] - 3.0e7 * y[1] * y[1];
        dy[2] = 3.0e7 * y[1] * y[1];
    }
    fn jac_dense(&self, _t: f64, y: &[f64]) -> Option<Vec<Vec<f64>>> {
        Some(vec![
            vec![-0.04, 1.0e4 * y[2], 1.0e4 * y[1]],
            vec![0.04, -1.0e4 * y[2] - 6.0e7 * y[1], -1.0e4 * y[1]],
            vec![0.0, 6.0e7 * y[1], 0.0],
        ])
    }
    fn describe(&self) -> Value {
        json!({"family": "robertson"})
    }
}

#[derive(Clone, Debug)]
pub struct StiffVdP {
    pub mu: f64,
}
impl Problem for StiffVdP {
    fn dim(&self) -> usize {
        2
    }
    fn f(&self, _t: f64, y: &[f64], dy: &mut [f64]) {
        dy[0] = y[1];
        dy[1] = self.mu * ((1.0 - y[0] * y[0]) * y[1]) - y[0];
    }
    fn jac_dense(&self, _t: f64, y: &[f64]) -> Option<Vec<Vec<f64>>> {
        Some(vec![
            vec![0.0, 1.0],
            vec![-2.0 * self.mu * y[0] * y[1] - 1.0, self.mu * (1.0 - y[0] * y[0])],
        ])
    }
    fn describe(&self) -> Value {
        json!({"family": "vdp_stiff", "mu": self.mu})
    }
}

/// Problem wrapper with an explicit dense mass matrix: M y' = f_inner expressed so that the exact
/// solution is the one of `inner` (f = M * f_inner).
pub struct WithMass<P: Problem> {
    pub inner: P,
    pub m: Vec<Vec<f64>>,
}
impl<P: Problem> Problem for WithMass<P> {
    fn dim(&self) -> usize {
        self.inner.dim()
    }
    fn f(&self, t: f64, y: &[f64], dy: &mut [f64]) {
        let n = self.dim();
        let mut g = vec![0.0; n];
        self.inner.f(t, y, &mut g);
        for i in 0..n {
            let mut s = 0.0;
            for j in 0..n {
                s += self.m[i][j] * g[j];
            }
            dy[i] = s;
        }
    }
    fn exact(&self, t: f64) -> Option<Vec<f64>> {
        self.inner.exact(t)
    }
    fn jac_dense(&self, t: f64, y: &[f64]) -> Option<Vec<Vec<f64>>> {
        let ji = self.inner.jac_dense(t, y)?;
        let n = self.dim();
        let mut j = vec![vec![0.0; n]; n];
        for i in 0..n {
            for k in 0..n {
                for l in 0..n {
                    j[i][l] += self.m[i][k] * ji[k][l];
                }
            }
        }
        Some(j)
    }
    fn mass_dense(&self) -> Option<Vec<Vec<f64>>> {
        Some(self.m.clone())
    }
    fn describe(&self) -> Value {
        json!({"family": "with_mass", "inner": self.inner.describe(), "m": self.m})
    }
}

/// Problem defined by closures (used for scripted / hostile right-hand sides)
pub struct FnProblem<F: Fn(f64, &[f64], &mut [f64]) + Send + Sync> {
    pub n: usize,
    pub name: String,
    pub fun: F,
}
impl<F: Fn(f64, &[f64], &mut [f64]) + Send + Sync> Problem for FnProblem<F> {
    fn dim(&self) -> usize {
        self.n
    }
    fn f(&self, t: f64, y: &[f64], dy: &mut [f64]) {
        (self.fun)(t, y, dy)
    }
    fn describe(&self) -> Value {
        json!({"family": "fn", "name": self.name})
    }
}
