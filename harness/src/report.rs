//! Per-run report: counters of what the monitors observed, violations, inconclusive cases,
//! samples; merged across workers and turned into evidence JSON.

use serde_json::{json, Value};
use std::collections::{BTreeMap, BTreeSet};

#[derive(Clone, Debug)]
pub struct Violation {
    pub sig: String,
    pub msg: String,
    pub case_id: String,
    pub case: Value,
}

#[derive(Clone, Debug)]
pub struct Report {
    pub prop: String,
    pub evaluations: u64,
    pub nontrivial: BTreeSet<u64>,
    pub counters: BTreeMap<String, u64>,
    pub worst: BTreeMap<String, f64>,
    pub inconclusive: BTreeMap<String, u64>,
    pub violations: Vec<Violation>,
    pub nviol: u64,
    pub viol_by_sig: BTreeMap<String, u64>,
    pub samples: Vec<Value>,
    pub harness_errors: Vec<String>,
    pub exhaustive: Option<bool>,
    pub notes: Vec<String>,
    /// raw value series (merged by concatenation) for quantile-based verdicts
    pub series: BTreeMap<String, Vec<f64>>,
}

impl Report {
    pub fn new(prop: &str) -> Self {
        Report {
            prop: prop.to_string(),
            evaluations: 0,
            nontrivial: BTreeSet::new(),
            counters: BTreeMap::new(),
            worst: BTreeMap::new(),
            inconclusive: BTreeMap::new(),
            violations: Vec::new(),
            nviol: 0,
            viol_by_sig: BTreeMap::new(),
            samples: Vec::new(),
            harness_errors: Vec::new(),
            exhaustive: None,
            notes: Vec::new(),
            series: BTreeMap::new(),
        }
    }
    pub fn eval(&mut self) {
        self.evaluations += 1;
    }
    pub fn evals(&mut self, n: u64) {
        self.evaluations += n;
    }
    pub fn count(&mut self, k: &str, n: u64) {
        *self.counters.entry(k.to_string()).or_insert(0) += n;
    }
    pub fn get(&self, k: &str) -> u64 {
        *self.counters.get(k).unwrap_or(&0)
    }
    pub fn worst(&mut self, k: &str, v: f64) {
        if v.is_nan() {
            return;
        }
        let e = self.worst.entry(k.to_string()).or_insert(f64::NEG_INFINITY);
        if v > *e {
            *e = v;
        }
    }
    pub fn push(&mut self, k: &str, v: f64) {
        self.series.entry(k.to_string()).or_default().push(v);
    }
    pub fn quantile(&self, k: &str, q: f64) -> Option<f64> {
        let v = self.series.get(k)?;
        if v.is_empty() {
            return None;
        }
        let mut w: Vec<f64> = v.iter().cloned().filter(|x| !x.is_nan()).collect();
        w.sort_by(|a, b| a.partial_cmp(b).unwrap());
        let idx = ((w.len() - 1) as f64 * q).round() as usize;
        Some(w[idx])
    }
    pub fn nontrivial(&mut self, h: u64) {
        self.nontrivial.insert(h);
    }
    pub fn inconclusive(&mut self, reason: &str) {
        *self.inconclusive.entry(reason.to_string()).or_insert(0) += 1;
    }
    pub fn harness_error(&mut self, msg: &str) {
        if self.harness_errors.len() < 20 {
            self.harness_errors.push(msg.to_string());
        }
    }
    pub fn sample(&mut self, v: Value) {
        if self.samples.len() < 4 {
            self.samples.push(v);
        }
    }
    pub fn violate(&mut self, sig: &str, msg: String, case_id: &str, case: Value) {
        self.nviol += 1;
        let c = self.viol_by_sig.entry(sig.to_string()).or_insert(0);
        *c += 1;
        // keep the first few per signature
        if *c <= 3 && self.violations.len() < 400 {
            self.violations.push(Violation {
                sig: sig.to_string(),
                msg,
                case_id: case_id.to_string(),
                case,
            });
        }
    }
    pub fn merge(&mut self, o: Report) {
        self.evaluations += o.evaluations;
        self.nontrivial.extend(o.nontrivial);
        for (k, v) in o.counters {
            *self.counters.entry(k).or_insert(0) += v;
        }
        for (k, v) in o.worst {
            let e = self.worst.entry(k).or_insert(f64::NEG_INFINITY);
            if v > *e {
                *e = v;
            }
        }
        for (k, v) in o.inconclusive {
            *self.inconclusive.entry(k).or_insert(0) += v;
        }
        self.nviol += o.nviol;
        for (k, v) in o.viol_by_sig {
            *self.viol_by_sig.entry(k).or_insert(0) += v;
        }
        for v in o.violations {
            let have = self.violations.iter().filter(|x| x.sig == v.sig).count();
            if have < 3 && self.violations.len() < 400 {
                self.violations.push(v);
            }
        }
        for s in o.samples {
            if self.samples.len() < 4 {
                self.samples.push(s);
            }
        }
        for e in o.harness_errors {
            self.harness_error(&e);
        }
        if let Some(e) = o.exhaustive {
            self.exhaustive = Some(self.exhaustive.unwrap_or(true) && e);
        }
        self.notes.extend(o.notes);
        for (k, v) in o.series {
            self.series.entry(k).or_default().extend(v);
        }
    }
    pub fn observed_json(&self) -> Value {
        let mut m = serde_json::Map::new();
        for (k, v) in &self.counters {
            m.insert(k.clone(), json!(v));
        }
        Value::Object(m)
    }
    pub fn worst_json(&self) -> Value {
        let mut m = serde_json::Map::new();
        for (k, v) in &self.worst {
            m.insert(k.clone(), crate::util::jn(*v));
        }
        Value::Object(m)
    }
}
