//! Deterministic PRNG (SplitMix64) with a few float helpers. All randomness of the harness
//! comes from streams derived from VERIF_SEED.

#[derive(Clone, Debug)]
pub struct Rng(pub u64);

impl Rng {
    pub fn new(seed: u64) -> Self {
        Rng(seed ^ 0x9E37_79B9_7F4A_7C15)
    }
    /// Independent stream for (seed, stream-id, case index).
    pub fn derive(seed: u64, stream: u64, idx: u64) -> Self {
        let mut r = Rng::new(seed);
        let a = r.next_u64() ^ stream.wrapping_mul(0xD6E8_FEB8_6659_FD93);
        let mut r2 = Rng(a);
        let b = r2.next_u64() ^ idx.wrapping_mul(0xA076_1D64_78BD_642F);
        let mut r3 = Rng(b);
        r3.next_u64();
        r3
    }
    pub fn next_u64(&mut self) -> u64 {
        self.0 = self.0.wrapping_add(0x9E37_79B9_7F4A_7C15);
        let mut z = self.0;
        z = (z ^ (z >> 30)).wrapping_mul(0xBF58_476D_1CE4_E5B9);
        z = (z ^ (z >> 27)).wrapping_mul(0x94D0_49BB_1331_11EB);
        z ^ (z >> 31)
    }
    /// uniform in [0,1)
    pub fn f(&mut self) -> f64 {
        (self.next_u64() >> 11) as f64 / (1u64 << 53) as f64
    }
    pub fn range(&mut self, lo: f64, hi: f64) -> f64 {
        lo + (hi - lo) * self.f()
    }
    /// log-uniform in [lo,hi], lo>0
    pub fn logu(&mut self, lo: f64, hi: f64) -> f64 {
        (lo.ln() + (hi.ln() - lo.ln()) * self.f()).exp()
    }
    pub fn below(&mut self, n: usize) -> usize {
        if n == 0 {
            0
        } else {
            (self.next_u64() % n as u64) as usize
        }
    }
    pub fn int(&mut self, lo: i64, hi: i64) -> i64 {
        lo + (self.next_u64() % ((hi - lo + 1) as u64)) as i64
    }
    pub fn bool(&mut self) -> bool {
        self.next_u64() & 1 == 1
    }
    pub fn chance(&mut self, p: f64) -> bool {
        self.f() < p
    }
    pub fn pick<'a, T>(&mut self, xs: &'a [T]) -> &'a T {
        &xs[self.below(xs.len())]
    }
    pub fn sign(&mut self) -> f64 {
        if self.bool() {
            1.0
        } else {
            -1.0
        }
    }
    /// standard normal (Box-Muller)
    pub fn normal(&mut self) -> f64 {
        let u1 = self.f().max(1e-300);
        let u2 = self.f();
        (-2.0 * u1.ln()).sqrt() * (2.0 * std::f64::consts::PI * u2).cos()
    }
}
