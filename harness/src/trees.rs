//! Rooted trees up to a given order, gamma(t), and elementary weights on a Butcher matrix.

#[derive(Clone, Debug)]
pub struct Tree {
    pub order: usize,
    pub children: Vec<usize>, // indices into Forest.trees, non-increasing
    pub gamma: f64,
}

pub struct Forest {
    pub trees: Vec<Tree>,
    /// ids of trees by order (index = order)
    pub by_order: Vec<Vec<usize>>,
}

impl Forest {
    pub fn new(max_order: usize) -> Forest {
        let mut f = Forest { trees: Vec::new(), by_order: vec![Vec::new(); max_order + 1] };
        // order 1: single vertex
        f.trees.push(Tree { order: 1, children: vec![], gamma: 1.0 });
        f.by_order[1].push(0);
        for n in 2..=max_order {
            // multisets of existing trees with total order n-1, children ids non-increasing
            let mut acc: Vec<Vec<usize>> = Vec::new();
            let max_id = f.trees.len() - 1;
            let mut cur: Vec<usize> = Vec::new();
            f.gen(n - 1, max_id, &mut cur, &mut acc);
            for ch in acc {
                let gamma = n as f64 * ch.iter().map(|&c| f.trees[c].gamma).product::<f64>();
                f.trees.push(Tree { order: n, children: ch, gamma });
                let id = f.trees.len() - 1;
                f.by_order[n].push(id);
            }
        }
        f
    }
    fn gen(&self, remaining: usize, max_id: usize, cur: &mut Vec<usize>, acc: &mut Vec<Vec<usize>>) {
        if remaining == 0 {
            acc.push(cur.clone());
            return;
        }
        for id in (0..=max_id).rev() {
            let o = self.trees[id].order;
            if o <= remaining {
                cur.push(id);
                self.gen(remaining - o, id, cur, acc);
                cur.pop();
            }
        }
    }
    /// Phi_i(t) for all stages i = 0..s-1 and all trees (memoised): phi[tree][stage]
    pub fn weights(&self, a: &[Vec<f64>]) -> Vec<Vec<f64>> {
        let s = a.len();
        let mut phi: Vec<Vec<f64>> = Vec::with_capacity(self.trees.len());
        for t in &self.trees {
            let mut v = vec![1.0; s];
            for &c in &t.children {
                // inner_i = sum_j a_ij Phi_j(child)
                let pc: &Vec<f64> = &phi[c];
                for i in 0..s {
                    let mut sum = 0.0;
                    for j in 0..s {
                        if a[i][j] != 0.0 {
                            sum += a[i][j] * pc[j];
                        }
                    }
                    v[i] *= sum;
                }
            }
            phi.push(v);
        }
        phi
    }
    pub fn describe(&self, id: usize) -> String {
        let t = &self.trees[id];
        if t.children.is_empty() {
            "•".to_string()
        } else {
            format!("[{}]", t.children.iter().map(|&c| self.describe(c)).collect::<Vec<_>>().join(""))
        }
    }
}
