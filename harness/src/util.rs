//! Small helpers: hashing of float data, ulp arithmetic, JSON conversions, parallel loop.

use crate::report::Report;
use serde_json::{json, Value};
use std::sync::atomic::{AtomicUsize, Ordering};
use std::sync::Mutex;
use std::time::Instant;

pub const EPS: f64 = f64::EPSILON;

pub fn fnv(h: &mut u64, x: u64) {
    // FNV-1a over the 8 bytes
    let mut v = x;
    for _ in 0..8 {
        *h ^= v & 0xff;
        *h = h.wrapping_mul(0x0000_0100_0000_01B3);
        v >>= 8;
    }
}
pub fn hash_f64s(xs: &[f64]) -> u64 {
    let mut h = 0xcbf2_9ce4_8422_2325u64;
    for &x in xs {
        fnv(&mut h, x.to_bits());
    }
    h
}
pub fn hash_str(s: &str) -> u64 {
    let mut h = 0xcbf2_9ce4_8422_2325u64;
    for b in s.bytes() {
        h ^= b as u64;
        h = h.wrapping_mul(0x0000_0100_0000_01B3);
    }
    h
}

pub fn next_up(x: f64) -> f64 {
    if x.is_nan() || x == f64::INFINITY {
        return x;
    }
    if x == 0.0 {
        return f64::from_bits(1);
    }
    let b = x.to_bits();
    if x > 0.0 {
        f64::from_bits(b + 1)
    } else {
        f64::from_bits(b - 1)
    }
}
pub fn next_down(x: f64) -> f64 {
    -next_up(-x)
}
pub fn ulp(x: f64) -> f64 {
    let a = x.abs();
    next_up(a) - a
}
/// bitwise equality of two floats, any NaN equal to any NaN (sign/payload of a NaN carry no meaning)
pub fn same_bits(x: f64, y: f64) -> bool {
    x.to_bits() == y.to_bits() || (x.is_nan() && y.is_nan())
}
pub fn bits_eq(a: &[f64], b: &[f64]) -> bool {
    a.len() == b.len() && a.iter().zip(b).all(|(x, y)| same_bits(*x, *y))
}
pub fn bits_eq2(a: &[Vec<f64>], b: &[Vec<f64>]) -> bool {
    a.len() == b.len() && a.iter().zip(b).all(|(x, y)| bits_eq(x, y))
}
pub fn all_finite(a: &[f64]) -> bool {
    a.iter().all(|v| v.is_finite())
}
pub fn max_abs(a: &[f64]) -> f64 {
    a.iter().fold(0.0f64, |m, v| m.max(v.abs()))
}

/// JSON for a float that keeps the exact bits and a readable copy.
pub fn jf(x: f64) -> Value {
    if x.is_finite() {
        json!({"v": x, "bits": format!("{:#018x}", x.to_bits())})
    } else {
        json!({"v": format!("{}", x), "bits": format!("{:#018x}", x.to_bits())})
    }
}
/// JSON number or string for non-finite.
pub fn jn(x: f64) -> Value {
    if x.is_finite() {
        json!(x)
    } else {
        json!(format!("{}", x))
    }
}
pub fn jv(xs: &[f64]) -> Value {
    Value::Array(xs.iter().map(|&x| jn(x)).collect())
}
pub fn jv_trunc(xs: &[f64], k: usize) -> Value {
    if xs.len() <= k {
        jv(xs)
    } else {
        let mut v: Vec<Value> = xs[..k].iter().map(|&x| jn(x)).collect();
        v.push(json!(format!("... ({} total)", xs.len())));
        Value::Array(v)
    }
}

/// Least-squares slope of y against x.
pub fn slope(xs: &[f64], ys: &[f64]) -> f64 {
    let n = xs.len() as f64;
    let mx = xs.iter().sum::<f64>() / n;
    let my = ys.iter().sum::<f64>() / n;
    let mut sxy = 0.0;
    let mut sxx = 0.0;
    for i in 0..xs.len() {
        sxy += (xs[i] - mx) * (ys[i] - my);
        sxx += (xs[i] - mx) * (xs[i] - mx);
    }
    if sxx == 0.0 {
        f64::NAN
    } else {
        sxy / sxx
    }
}

pub struct Watch {
    pub slots: Mutex<Vec<Option<(Instant, String)>>>,
}

/// Parallel loop over case indices 0..n. Every worker owns a Report; they are merged at the end.
/// A watchdog aborts the whole process (exit 2, INCONCLUSIVE) if a single case stays in flight
/// for more than `case_timeout_s` wall seconds.
pub fn par_for<F>(n: usize, prop: &str, f: F) -> Report
where
    F: Fn(usize, &mut Report) + Sync,
{
    let threads = std::env::var("IVPMON_THREADS")
        .ok()
        .and_then(|s| s.parse::<usize>().ok())
        .unwrap_or_else(|| std::thread::available_parallelism().map(|n| n.get()).unwrap_or(8))
        .max(1)
        .min(n.max(1));
    let next = AtomicUsize::new(0);
    let done = AtomicUsize::new(0);
    let watch = Watch {
        slots: Mutex::new(vec![None; threads]),
    };
    let case_timeout_s: u64 = std::env::var("IVPMON_CASE_TIMEOUT")
        .ok()
        .and_then(|s| s.parse().ok())
        .unwrap_or(300);
    let merged = Mutex::new(Report::new(prop));
    std::thread::scope(|s| {
        for w in 0..threads {
            let next = &next;
            let done = &done;
            let watch = &watch;
            let merged = &merged;
            let f = &f;
            let prop = prop.to_string();
            s.spawn(move || {
                let mut rep = Report::new(&prop);
                loop {
                    let i = next.fetch_add(1, Ordering::SeqCst);
                    if i >= n {
                        break;
                    }
                    {
                        let mut sl = watch.slots.lock().unwrap();
                        sl[w] = Some((Instant::now(), format!("{}#{}", prop, i)));
                    }
                    let r = std::panic::catch_unwind(std::panic::AssertUnwindSafe(|| f(i, &mut rep)));
                    if let Err(p) = r {
                        let msg = crate::probe::panic_message(&p);
                        rep.harness_error(&format!("case {} panicked outside a guarded solver call: {}", i, msg));
                    }
                    {
                        let mut sl = watch.slots.lock().unwrap();
                        sl[w] = None;
                    }
                }
                done.fetch_add(1, Ordering::SeqCst);
                merged.lock().unwrap().merge(rep);
            });
        }
        // watchdog
        let watch = &watch;
        let done = &done;
        s.spawn(move || loop {
            if done.load(Ordering::SeqCst) >= threads {
                break;
            }
            std::thread::sleep(std::time::Duration::from_millis(200));
            let sl = watch.slots.lock().unwrap();
            for e in sl.iter().flatten() {
                if e.0.elapsed().as_secs() > case_timeout_s {
                    println!(
                        "INCONCLUSIVE: watchdog: case {} in flight for more than {} s (no verdict)",
                        e.1, case_timeout_s
                    );
                    std::process::exit(2);
                }
            }
        });
    });
    merged.into_inner().unwrap()
}
