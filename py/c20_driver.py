#!/usr/bin/env python3
"""C20 — differential monitor: the PyO3 extension (built from /repo's working tree) against the Rust
API on a shared case table. Run through ./check C20 <tier> (python3-vt, numpy; scipy optional).

exit 0: every case agreed; exit 1 + 'VIOLATION property=C20 replay=<path>': a disagreement that is not a
listed known finding; exit 2: harness error / inconclusive (never prints VIOLATION)."""
import argparse, json, math, os, struct, subprocess, sys, time, itertools, hashlib

ap = argparse.ArgumentParser()
ap.add_argument("--tier", default="quick")
ap.add_argument("--seed", type=int, default=20261003)
ap.add_argument("--bin", required=True)
ap.add_argument("--ext", required=True)
ap.add_argument("--verif", default="/verif")
ap.add_argument("--only", default=None)
A = ap.parse_args()
T0 = time.time()
VDIR = os.environ.get("IVPMON_VERIF_DIR", A.verif)

def harness_error(msg):
    print("HARNESS-ERROR:", msg)
    sys.exit(2)

try:
    import numpy as np
except Exception as e:
    harness_error("numpy not importable: %r" % (e,))
sys.path.insert(0, A.ext)
try:
    import ivp
except Exception as e:
    harness_error("cannot import the ivp extension from %s: %r" % (A.ext, e))
try:
    import scipy.sparse as sp
except Exception:
    sp = None

def f2h(x):
    return "%016x" % struct.unpack("<Q", struct.pack("<d", float(x)))[0]
def h2f(h):
    return struct.unpack("<d", struct.pack("<Q", int(h, 16)))[0]
def same(a, b):
    """bitwise equality, any NaN equal to any NaN"""
    return f2h(a) == f2h(b) or (math.isnan(a) and math.isnan(b))

# ------------------------------------------------------------------ problem catalog (same operation order as the Rust twin)
def make_fun(name, n, log=None):
    def vdp(t, y, p0):
        return [y[1], p0 * ((1.0 - y[0] * y[0]) * y[1]) - y[0]]
    def lin(t, y, p0, p1, p2):
        d = []
        for i in range(n):
            s = p1 * y[i]
            if i > 0:
                s = s + p0 * y[i - 1]
            if i + 1 < n:
                s = s + p2 * y[i + 1]
            d.append(s)
        return d
    def lotka(t, y, p0, p1, p2, p3):
        return [p0 * y[0] - p1 * y[0] * y[1], -p2 * y[1] + p3 * y[0] * y[1]]
    def decay(t, y, *p):
        return [-p[i] * y[i] for i in range(n)]
    def robertson(t, y, p0, p1, p2):
        return [-p0 * y[0] + p1 * y[1] * y[2], p0 * y[0] - p1 * y[1] * y[2] - p2 * y[1] * y[1], p2 * y[1] * y[1]]
    def forced(t, y, p0, p1, p2):
        return [-p0 * y[0] + t * t * p1, y[0] - y[1] * p2 + t * p1]
    f = {"vdp": vdp, "lin": lin, "lotka": lotka, "decay": decay, "robertson": robertson, "forced": forced}[name]
    if log is None:
        return f
    def logged(t, y, *p):
        log.append((float(t), [float(v) for v in y]))
        return f(t, y, *p)
    return logged

def make_jac(name, n):
    def vdp(t, y, p0):
        return np.array([[0.0, 1.0], [p0 * (-2.0 * y[0] * y[1]) - 1.0, p0 * (1.0 - y[0] * y[0])]])
    def lin(t, y, p0, p1, p2):
        j = np.zeros((n, n))
        for i in range(n):
            j[i, i] = p1
            if i > 0:
                j[i, i - 1] = p0
            if i + 1 < n:
                j[i, i + 1] = p2
        return j
    def lotka(t, y, p0, p1, p2, p3):
        return np.array([[p0 - p1 * y[1], -p1 * y[0]], [p3 * y[1], -p2 + p3 * y[0]]])
    def decay(t, y, *p):
        j = np.zeros((n, n))
        for i in range(n):
            j[i, i] = -p[i]
        return j
    def robertson(t, y, p0, p1, p2):
        return np.array([[-p0, p1 * y[2], p1 * y[1]], [p0, -p1 * y[2] - 2.0 * p2 * y[1], -p1 * y[1]], [0.0, 2.0 * p2 * y[1], 0.0]])
    def forced(t, y, p0, p1, p2):
        return np.array([[-p0, 0.0], [1.0, -p2]])
    return {"vdp": vdp, "lin": lin, "lotka": lotka, "decay": decay, "robertson": robertson, "forced": forced}[name]

def make_event(e, n, seen):
    c = h2f(e["c"])
    k = e["k"]
    kind = e["kind"]
    def ev(t, y, *p):
        seen.append(len(p))
        if kind == "comp":
            return y[k] - c
        if kind == "lin":
            return y[0] + y[n - 1] * 0.5 - c
        return t - c
    ev.terminal = bool(e["terminal"])
    ev.direction = float(e["direction"])
    return ev

class MinimalCSC:
    """the smallest object the binding accepts as a sparsity pattern"""
    def __init__(self, pattern):
        n = len(pattern)
        self.shape = (n, n)
        self.indices = []
        self.indptr = [0]
        for c in range(n):
            for r in range(n):
                if pattern[r][c]:
                    self.indices.append(r)
            self.indptr.append(len(self.indices))
    def tocsc(self):
        return self

# ------------------------------------------------------------------ bookkeeping
known = []
try:
    known = json.load(open(os.path.join(A.verif, "known_findings.json"))).get("findings", [])
except Exception:
    known = []
viol = {}          # signature -> [count, first message, first case]
counters = {}
samples = []
nontrivial = set()
evaluations = 0
inconclusive = {}

def count(k, n=1):
    counters[k] = counters.get(k, 0) + n
def violate(sig, msg, case):
    v = viol.setdefault(sig, [0, msg, case])
    v[0] += 1

def run_py(spec, override=None, log=None):
    """call ivp.solve_ivp for a case spec; returns (result or None, exception or None)"""
    pr = spec["problem"]
    n = pr["n"]
    params = tuple(pr["params"])
    use_args = spec["id"] % 2 == 0
    f = make_fun(pr["name"], n, log)
    seen = []
    evs = [make_event(e, n, seen) for e in spec["events"]]
    jac = None
    # the same Jacobian values in four memory layouts (C order, Fortran order, transposed view, strided view):
    # the binding must read entries by index, not by position in the buffer
    layout = (spec["id"] // 2) % 4
    def relayout(j):
        j = np.asarray(j, dtype=float)
        if layout == 1:
            return np.asfortranarray(j)
        if layout == 2:
            return np.ascontiguousarray(j.T).T
        if layout == 3:
            big = np.full((2 * j.shape[0], 2 * j.shape[1]), 7.5)
            big[::2, ::2] = j
            return big[::2, ::2]
        return j
    if spec["jac"] == "callable":
        jraw = make_jac(pr["name"], n)
        jac = lambda t, y, *p: relayout(jraw(t, y, *p))
        count("jacobian_layout_%s" % ["c_order", "fortran_order", "transposed_view", "strided_view"][layout])
    elif spec["jac"] == "constant":
        jac = relayout(make_jac(pr["name"], n)(0.0, [0.0] * n, *params))
        count("jacobian_layout_%s" % ["c_order", "fortran_order", "transposed_view", "strided_view"][layout])
    if not use_args:
        # closures instead of args
        f0, j0, e0 = f, jac, evs
        f = lambda t, y: f0(t, y, *params)
        if callable(j0):
            jac = lambda t, y: j0(t, y, *params)
        evs = []
        for e in e0:
            g = (lambda e_: (lambda t, y: e_(t, y, *params)))(e)
            g.terminal = e.terminal
            g.direction = e.direction
            evs.append(g)
    kw = {}
    def tol(v):
        return [h2f(x) for x in v] if isinstance(v, list) else h2f(v)
    kw["rtol"] = tol(spec["rtol"])
    kw["atol"] = tol(spec["atol"])
    if isinstance(kw["atol"], list) and spec["id"] % 3 == 0:
        kw["atol"] = np.array(kw["atol"])
    for k in ("first_step", "max_step"):
        if spec[k] is not None:
            kw[k] = h2f(spec[k])
    if spec["max_steps"] is not None:
        kw["max_steps"] = spec["max_steps"]
    if override:
        kw.update(override)
    t_eval = None if spec["t_eval"] is None else [h2f(x) for x in spec["t_eval"]]
    if t_eval is not None and spec["id"] % 4 == 1:
        t_eval = np.array(t_eval)
    y0 = [h2f(x) for x in spec["y0"]]
    try:
        res = ivp.solve_ivp(f, (h2f(spec["t_span"][0]), h2f(spec["t_span"][1])), y0 if spec["id"] % 5 else np.array(y0), method=spec["method"],
                            t_eval=t_eval, dense_output=spec["dense_output"], events=(evs if evs else None), args=(params if use_args else None), jac=jac, **kw)
        return res, None, seen, use_args
    except BaseException as e:  # includes pyo3 PanicException
        if isinstance(e, (KeyboardInterrupt, SystemExit)):
            raise
        return None, e, seen, use_args

def compare(spec, res, exc):
    """compare one Python result with the Rust expectation; returns list of (clause, message)"""
    out = []
    ex = spec["expected"]
    n = spec["problem"]["n"]
    if ex["outcome"] != "ok":
        if exc is None:
            out.append(("error_propagated", "the Rust API returns %s but the Python call succeeded" % ex["outcome"]))
        return out
    if exc is not None:
        out.append(("python_call_failed", "the Rust API succeeds but Python raised %r" % (exc,)))
        return out
    t = [h2f(x) for x in ex["t"]]
    m = len(t)
    rt = np.asarray(res.t)
    if rt.shape != (m,):
        out.append(("t_shape", "t has shape %s, expected (%d,)" % (rt.shape, m)))
        return out
    for i in range(m):
        if not same(rt[i], t[i]):
            out.append(("t_values", "t[%d] = %r, Rust %r" % (i, float(rt[i]), t[i])))
            break
    ry = np.asarray(res.y)
    if ry.shape != (n, m):
        out.append(("y_layout", "y has shape %s, expected (n, m) = (%d, %d)" % (ry.shape, n, m)))
    else:
        bad = None
        for i in range(m):
            for j in range(n):
                if not same(ry[j, i], h2f(ex["y"][i][j])):
                    bad = (j, i)
                    break
            if bad:
                break
        if bad:
            out.append(("y_values", "y[%d, %d] = %r but the Rust solution has y[%d][%d] = %r" % (bad[0], bad[1], float(ry[bad]), bad[1], bad[0], h2f(ex["y"][bad[1]][bad[0]]))))
    # status / success
    want_status = {"Success": 0, "UserInterrupt": 1}.get(ex["status_name"], -1)
    if res.status != want_status:
        out.append(("status_mapping", "status = %r for Rust status %s (expected %d)" % (res.status, ex["status_name"], want_status)))
    if bool(res.success) != (want_status >= 0):
        out.append(("success_flag", "success = %r with status %d" % (res.success, want_status)))
    # counters
    if res.nfev != ex["nfev"]:
        out.append(("nfev", "nfev = %d, Rust %d" % (res.nfev, ex["nfev"])))
    want_njev = 0 if spec["jac"] == "constant" else ex["njev"]
    if res.njev != want_njev:
        out.append(("njev", "njev = %d, expected %d (jac mode %s)" % (res.njev, want_njev, spec["jac"])))
    if res.nlu != ex["nlu"]:
        out.append(("nlu", "nlu = %d, Rust %d" % (res.nlu, ex["nlu"])))
    # events
    if not spec["events"]:
        if res.t_events is not None or res.y_events is not None:
            out.append(("events_none", "no events requested but t_events/y_events are not None"))
    else:
        te, ye = res.t_events, res.y_events
        if te is None or ye is None or len(te) != len(spec["events"]) or len(ye) != len(spec["events"]):
            out.append(("events_shape", "t_events/y_events do not have one entry per event function"))
        else:
            for k in range(len(spec["events"])):
                et = [h2f(x) for x in ex["t_events"][k]]
                a = np.asarray(te[k])
                if a.shape != (len(et),) or any(not same(a[i], et[i]) for i in range(len(et))):
                    out.append(("t_events_values", "t_events[%d] = %r, Rust %r" % (k, a.tolist(), et)))
                    break
                b = ye[k]
                if len(et) == 0:
                    if len(b) != 0:
                        out.append(("y_events_shape", "y_events[%d] not empty although no event occurred" % k))
                else:
                    b = np.asarray(b)
                    if b.shape != (len(et), n):
                        out.append(("y_events_shape", "y_events[%d] has shape %s, expected (%d, %d)" % (k, b.shape, len(et), n)))
                        break
                    if any(not same(b[i, j], h2f(ex["y_events"][k][i][j])) for i in range(len(et)) for j in range(n)):
                        out.append(("y_events_values", "y_events[%d] differs from the Rust event states" % k))
                        break
    # dense output
    if spec["dense_output"]:
        if res.sol is None:
            out.append(("sol_missing", "dense_output requested but sol is None"))
        else:
            pts = [h2f(x) for x in spec["sol_probe_times"]]
            for i, tp in enumerate(pts):
                want = ex["sol_at_probes"][i]
                if want is None:
                    continue
                v = np.asarray(res.sol(tp))
                if v.shape != (n,):
                    out.append(("sol_shape", "sol(t) has shape %s, expected (%d,)" % (v.shape, n)))
                    break
                if any(not same(v[j], h2f(want[j])) for j in range(n)):
                    out.append(("sol_values", "sol(%r) = %r differs from the Rust interpolant" % (tp, v.tolist())))
                    break
            if all(w is not None for w in ex["sol_at_probes"]):
                for arg in (pts, np.array(pts)):
                    v = np.asarray(res.sol(arg))
                    if v.shape != (n, len(pts)):
                        out.append(("sol_shape", "sol(array) has shape %s, expected (%d, %d)" % (v.shape, n, len(pts))))
                        break
                    if any(not same(v[j, i], h2f(ex["sol_at_probes"][i][j])) for i in range(len(pts)) for j in range(n)):
                        out.append(("sol_values", "sol(array) differs from the Rust interpolant"))
                        break
    else:
        if res.sol is not None:
            out.append(("sol_present", "dense_output not requested but sol is not None"))
    return out

EPS_FD = math.sqrt(np.finfo(float).eps)

def jacobian_groups(log, n):
    """find finite-difference Jacobian evaluations in an RHS call log: list of lists of column groups"""
    evals = []
    i = 0
    while i < len(log):
        t0, y0 = log[i]
        groups = []
        j = i + 1
        while j < len(log) and log[j][0] == t0:
            cols = []
            ok = True
            for c in range(n):
                d = log[j][1][c] - y0[c]
                if d == 0.0:
                    continue
                want = (y0[c] + EPS_FD * max(abs(y0[c]), 1.0)) - y0[c]
                if d == want:
                    cols.append(c)
                else:
                    ok = False
                    break
            if ok and cols:
                groups.append(cols)
                j += 1
            else:
                break
        if groups and sorted(c for g in groups for c in g) == list(range(n)):
            evals.append(groups)
            i = j
        else:
            i += 1
    return evals

def true_pattern(name, n):
    p = [[False] * n for _ in range(n)]
    if name == "lin":
        for i in range(n):
            for j in range(n):
                if abs(i - j) <= 1:
                    p[i][j] = True
    elif name == "decay":
        for i in range(n):
            p[i][i] = True
    elif name == "robertson":
        p = [[True, True, True], [True, True, True], [False, True, False]]
    elif name == "vdp" or name == "lotka":
        p = [[True, True], [True, True]]
        if name == "vdp":
            p[0][0] = False
    else:
        p = [[True, False], [True, True]]
    return p

def check_sparsity(spec, pattern, plain, tag):
    """run the case with jac_sparsity and compare bitwise with the run without; inspect the grouping"""
    global evaluations
    n = spec["problem"]["n"]
    log = []
    objs = [MinimalCSC(pattern)]
    if sp is not None:
        objs.append(sp.csc_matrix(np.array(pattern, dtype=float)))
        objs.append(sp.csr_matrix(np.array(pattern, dtype=float)))
        objs.append(sp.coo_matrix(np.array(pattern, dtype=float)))
    obj = objs[spec["id"] % len(objs)]
    res, exc, _, _ = run_py(spec, override={"jac_sparsity": obj}, log=log)
    evaluations += 1
    m = spec["method"]
    if exc is not None or plain is None:
        if exc is not None and plain is not None:
            violate("C20/sparsity_run_failed/%s/%s" % (m, tag), "run with jac_sparsity raised %r" % (exc,), spec)
        return
    count("sparsity_runs")
    a, b = np.asarray(res.y), np.asarray(plain.y)
    if a.shape != b.shape or np.asarray(res.t).shape != np.asarray(plain.t).shape or any(not same(x, y) for x, y in zip(np.asarray(res.t), np.asarray(plain.t))) or any(not same(x, y) for x, y in zip(a.ravel(), b.ravel())) or res.status != plain.status:
        violate("C20/sparsity_changes_result/%s/%s" % (m, tag), "the result with jac_sparsity (%s) differs from the result without" % type(obj).__name__, {"spec": spec, "pattern": pattern})
    evs = jacobian_groups(log, n)
    count("sparse_jacobian_evaluations_decoded", len(evs))
    for groups in evs:
        for g in groups:
            rows = set()
            for c in g:
                for r in range(n):
                    if pattern[r][c]:
                        if r in rows:
                            violate("C20/sparsity_group_shares_row/%s/%s" % (m, tag), "columns %r are perturbed together although they share row %d of the pattern" % (g, r), {"spec": spec, "pattern": pattern, "groups": groups})
                        rows.add(r)
        count("sparsity_groups_checked", len(groups))
    if evs:
        nontrivial.add(("sp", spec["id"], tag))
        if res.nfev != plain.nfev:
            violate("C20/sparsity_nfev/%s/%s" % (m, tag), "nfev (stepper evaluations) changed from %d to %d with jac_sparsity" % (plain.nfev, res.nfev), spec)

# ------------------------------------------------------------------ main loop
try:
    out = subprocess.run([A.bin, "c20-expected", A.tier, str(A.seed)], capture_output=True, text=True, timeout=3600)
except Exception as e:
    harness_error("cannot run the Rust side: %r" % (e,))
if out.returncode != 0:
    harness_error("the Rust side failed: %s" % out.stderr[-500:])
specs = [json.loads(l) for l in out.stdout.splitlines() if l.startswith("{")]
if len(specs) < 10:
    harness_error("case table too small (%d cases)" % len(specs))

for spec in specs:
    if A.only is not None and str(spec["id"]) != A.only:
        continue
    m = spec["method"]
    res, exc, seen, use_args = run_py(spec)
    evaluations += 1
    count("cases_compared")
    count("cases_" + m)
    diffs = compare(spec, res, exc)
    cls = ("events" if spec["events"] else "plain") + ("+dense" if spec["dense_output"] else "") + ("+t_eval" if spec["t_eval"] is not None else "") + ("+jac_" + spec["jac"] if spec["jac"] != "none" else "")
    for clause, msg in diffs:
        violate("C20/%s/%s/%s" % (clause, m, cls), msg, spec)
    if spec["events"] or spec["dense_output"]:
        nontrivial.add(("case", spec["id"]))
    if spec["events"] and res is not None:
        count("cases_with_events")
        # args must reach the event functions
        if use_args and seen and any(k != len(spec["problem"]["params"]) for k in seen):
            violate("C20/args_reach_events/%s/%s" % (m, cls), "an event function was called with %r extra arguments instead of %d" % (set(seen), len(spec["problem"]["params"])), spec)
    if spec["expected"]["outcome"] == "ok" and res is not None:
        count("status_%s" % spec["expected"]["status_name"])
        if spec["dense_output"]:
            count("cases_with_dense_output")
        if spec["jac"] == "constant":
            count("cases_constant_jac")
        if spec["jac"] == "callable":
            count("cases_callable_jac")
    # sparsity: implicit methods without user Jacobian
    if m in ("Radau", "BDF") and spec["jac"] == "none" and spec["expected"]["outcome"] == "ok" and exc is None:
        n = spec["problem"]["n"]
        pat = true_pattern(spec["problem"]["name"], n)
        check_sparsity(spec, pat, res, "true_structure")
        # superset with random extras (deterministic from the case id)
        h = int(hashlib.sha256(str(spec["id"]).encode()).hexdigest(), 16)
        sup = [row[:] for row in pat]
        for r in range(n):
            for c in range(n):
                if (h >> (r * n + c)) & 3 == 0:
                    sup[r][c] = True
        check_sparsity(spec, sup, res, "superset")
        if spec["problem"]["name"] == "decay" and n <= (4 if A.tier == "thorough" else 3):
            # every pattern containing the diagonal
            off = [(r, c) for r in range(n) for c in range(n) if r != c]
            allp = list(itertools.product([False, True], repeat=len(off)))
            step = 1 if len(allp) <= 64 else max(1, len(allp) // (600 if A.tier == "thorough" else 40))
            for bits in allp[::step]:
                p = [[r == c for c in range(n)] for r in range(n)]
                for (r, c), b in zip(off, bits):
                    p[r][c] = b
                check_sparsity(spec, p, res, "all_patterns_n%d" % n)
                count("exhaustive_patterns")
    if len(samples) < 3 and spec["id"] % 97 == 5:
        s2 = dict(spec)
        s2.pop("expected", None)
        samples.append({"case": s2, "python_status": None if res is None else res.status, "python_t_len": None if res is None else int(np.asarray(res.t).shape[0])})

# ------------------------------------------------------------------ verdict
os.makedirs(os.path.join(VDIR, "replays"), exist_ok=True)
os.makedirs(os.path.join(VDIR, "evidence"), exist_ok=True)
new_viol = 0
known_matched = []
for sig, (cnt, msg, case) in sorted(viol.items()):
    k = [f for f in known if f.get("property") == "C20" and f.get("status") == "open" and f.get("signature") == sig]
    if k:
        known_matched.append(sig)
        print("KNOWN-FINDING: property=C20 %s [%s] (%d occurrence(s) this run)" % (k[0].get("what", ""), sig, cnt))
        continue
    new_viol += cnt
    path = os.path.join(VDIR, "replays", "C20-%s.json" % hashlib.sha256((sig + str(A.seed)).encode()).hexdigest()[:16])
    json.dump({"property": "C20", "tier": A.tier, "seed": A.seed, "signature": sig, "message": msg, "case": case, "replay": "python3-vt /verif/py/c20_driver.py --tier %s --seed %d --bin <ivpmon> --ext <dir> --only %s" % (A.tier, A.seed, case.get("id") if isinstance(case, dict) and "id" in case else case.get("spec", {}).get("id"))}, open(path, "w"), indent=1, default=str)
    print("VIOLATION property=C20 replay=%s" % path)
    print("  signature=%s count=%d :: %s" % (sig, cnt, msg[:300]))

floors = {"cases_compared": 300, "cases_with_events": 60, "cases_with_dense_output": 60, "sparsity_runs": 40, "sparsity_groups_checked": 100, "cases_constant_jac": 5, "cases_callable_jac": 20}
floor_fail = []
if A.only is None:
    for k, v in floors.items():
        if counters.get(k, 0) < v:
            floor_fail.append("%s=%d < %d" % (k, counters.get(k, 0), v))
if A.only is None:
    ev = {
        "property_id": "C20", "tier": A.tier, "seed": A.seed, "level": "exploration",
        "coverage": {
            "evaluations": max(evaluations, 1), "distinct_nontrivial": len(nontrivial),
            "rule": "shared case table generated by the Rust harness (6 problems with + - * / right-hand sides x 6 methods x scalar/vector tolerances x t_eval x dense_output x 0..3 event functions (terminal or not, three directions) x first_step/max_step/max_steps x Jacobian none/callable/constant (values handed over in C order, Fortran order, as a transposed view and as a strided view) x args or closures x forward/backward); every case is run through ivp.solve_ivp of the freshly built extension and compared bit for bit with the Rust Solution (t, y layout (n,m), events, status/success mapping, nfev/njev/nlu, sol(t) shapes and values); implicit cases without a user Jacobian are re-run with jac_sparsity (true structure, random supersets, every pattern containing the diagonal for n<=3/4; minimal tocsc object and scipy csc/csr/coo) and the perturbation groups decoded from the Python right-hand-side log; non-trivial = case with events or dense output, or a sparsity run in which at least one Jacobian evaluation was decoded",
            "samples": samples if samples else [{"note": "no sample recorded"}],
            "observed": counters, "inconclusive": inconclusive, "known_findings_matched": known_matched,
            "violations_by_signature": {k: v[0] for k, v in viol.items()}, "coverage_floors_failed": floor_fail,
        },
        "assumptions": ["right-hand sides use only + - * / on floats in the same association order on both sides, so both compute bit-identical values", "both artefacts are built from the same working tree of /repo"],
        "wall_s": time.time() - T0, "violations": new_viol,
    }
    json.dump(ev, open(os.path.join(VDIR, "evidence", "C20.json"), "w"), indent=1, default=str)
print("C20 %s seed=%d : evaluations=%d distinct_nontrivial=%d violations=%d wall=%.1fs" % (A.tier, A.seed, evaluations, len(nontrivial), new_viol, time.time() - T0))
for k in sorted(counters):
    print("  observed %-44s %d" % (k, counters[k]))
if new_viol:
    sys.exit(1)
if floor_fail:
    print("INCONCLUSIVE: coverage floors not met:", floor_fail)
    sys.exit(2)
sys.exit(0)
