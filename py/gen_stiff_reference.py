#!/usr/bin/env python3
"""Generates /verif/reference/stiff_reference.json: end states of Robertson and Van der Pol computed
by two independent SciPy integrators (Radau and LSODA, rtol 1e-12). A value is stored only if the two
agree; the stored agreement level bounds the accuracy at which the table may be used."""
import json, numpy as np
from scipy.integrate import solve_ivp

def rober(t, y):
    return [-0.04*y[0] + 1e4*y[1]*y[2], 0.04*y[0] - 1e4*y[1]*y[2] - 3e7*y[1]**2, 3e7*y[1]**2]
def rober_j(t, y):
    return [[-0.04, 1e4*y[2], 1e4*y[1]], [0.04, -1e4*y[2]-6e7*y[1], -1e4*y[1]], [0.0, 6e7*y[1], 0.0]]
def vdp(mu):
    return (lambda t, y: [y[1], mu*((1-y[0]**2)*y[1]) - y[0]]), (lambda t, y: [[0.0, 1.0], [-2*mu*y[0]*y[1]-1.0, mu*(1-y[0]**2)]])

out = {"comment": "reference end states; 'agree' = max relative difference between SciPy Radau and LSODA at rtol 1e-12", "cases": []}
def do(name, f, j, y0, tend):
    a = solve_ivp(f, (0, tend), y0, method="Radau", jac=j, rtol=1e-12, atol=1e-16)
    b = solve_ivp(f, (0, tend), y0, method="LSODA", jac=j, rtol=1e-12, atol=1e-16)
    ya, yb = a.y[:, -1], b.y[:, -1]
    agree = float(np.max(np.abs(ya-yb)/(np.abs(ya)+1e-300)))
    out["cases"].append({"name": name, "tend": tend, "y0": list(map(float, y0)), "y": [float(v) for v in ya], "y_lsoda": [float(v) for v in yb], "agree": agree, "ok": bool(a.success and b.success)})
    print(name, tend, ya, agree)
for T in [40.0, 1e4, 1e8]:
    do("robertson", rober, rober_j, [1.0, 0.0, 0.0], T)
for mu, T in [(10.0, 20.0), (100.0, 200.0), (1000.0, 2000.0)]:
    f, j = vdp(mu)
    do("vdp_mu%g" % mu, f, j, [2.0, 0.0], T)
json.dump(out, open("/verif/reference/stiff_reference.json", "w"), indent=1)
