#!/bin/bash
# usage: tools/all.sh <quick|thorough> [seed]  — runs every check once, prints one summary line per property
tier="${1:-quick}"; seed="${2:-20261003}"
cd "$(dirname "$0")/.."
for p in C01 C02 C03 C04 C05 C06 C07 C08 C09 C10 C11 C12 C13 C14 C15 C16 C17 C18 C19 C20; do
  t0=$(date +%s)
  out=$(VERIF_SEED=$seed ./check $p $tier 2>&1); c=$?
  echo "$p tier=$tier seed=$seed exit=$c time=$(( $(date +%s) - t0 ))s $(echo "$out" | grep -E "^$p " | sed 's/.*evaluations=/evaluations=/' | cut -c1-120)"
  [ $c -ne 0 ] && echo "$out" | grep -E "signature=|INCONCL|HARNESS" | head -5 | cut -c1-300
done
exit 0
