#!/usr/bin/env python3
"""Regenerates /verif/MANIFEST.json from the table below (run from anywhere)."""
import json, os, subprocess
V = os.path.dirname(os.path.dirname(os.path.abspath(__file__)))

# property -> (technique, level text, level note, design ref)
P = {
 "C01": ("reference-solution monitor (closed-form families + independent GBS reference), tolerance-ladder trend monitor",
         "Every returned sample of thousands of generated solve_ivp runs is compared with the exact solution against the bound K_m * A * naccpt * (atol + rtol|y|), also on time axes compressed by 2^4..2^20 (same limits by exact scaling); tolerance ladders check that errors shrink; RK4 order by step halving. Held on the executions observed; constants calibrated with >=10x margin.",
         "closed-form solutions evaluated in f64; amplification factor A computed from the exact sensitivity; GBS reference self-certified (H vs H/2 agree to 1e-12); calibrated constants K_m", "§4 C01"),
 "C02": ("tableau extraction by scripted right-hand side + complete rooted-tree order conditions; accept/reject probing of the embedded estimator; empirical local-order slopes; Pade check for Radau",
         "The Butcher tableau the code actually applies is read off the stepper's own calls (first and later steps, clipped steps, the step after a ModifiedSolution answer) and checked against all order conditions up to p (exhaustive over rooted trees); estimator order by accept/reject on tree-scripted inputs; local error slopes on nonlinear closed-form problems; Radau step vs (2,3) Pade approximant.",
         "order-condition theory (Butcher); extraction is exact arithmetic (h = 1, y0 = 0, unit-vector answers)", "§4 C02"),
 "C03": ("invariant monitors on Solution and on the recorded call log of instrumented IVP callbacks, over an option sweep",
         "Direct predicates (monotone times, start/end, status honesty, evaluation times inside the interval, dimensions, finiteness) on every run of a large randomised and adversarial option sweep (incl. short spans from degenerate starts).",
         "harness-owned IVP implementation records every ode/events/jac call; rounding slack R_t = 4 eps max(|x0|,|xend|)", "§4 C03"),
 "C04": ("child-process execution with logical evaluation budget, stall detection and CPU limit; exit-status oracle",
         "Each hostile solve_ivp call (19 kinds of blow-up, domain exit, NaN/inf, discontinuity, chattering, overflow-sized right-hand sides, sub-ulp intervals) runs in its own child process under a right-hand-side evaluation budget (>=1000x head-room) and a CPU limit; termination is decided as bounded work (no progress of the evaluated times between two windows of 1e6 calls), panics by exit status, and the returned prefix is validated.",
         "termination restated as bounded work; wall-clock watchdog firing = inconclusive", "§4 C04"),
 "C05": ("pilot-run adversarial placement of requested times + exact sequence/bit-pattern comparison + dense twin comparison",
         "Requested times are placed on / next to / inside the accepted-step grid revealed by a pilot run; reported times must equal the request bit for bit, values must equal sol(t) of the dense twin bitwise and the exact solution within the C01/C07 bound; early-stop prefix rules checked against the twin without t_eval.",
         "C12 (grid independent of output options) is verified per case by the ode-log hash before the twin is used", "§4 C05"),
 "C06": ("endpoint-identity and span monitors on every stored dense segment and on the interpolants handed to SolOut",
         "For every accepted step of every run: interpolant equals the stored state at both step ends (rounding bound), sol(t_i) reproduces samples, sol succeeds exactly on the covered span and fails outside, sol_many equals sol for every order of the query times, interpolants handed over on demand (XOut, dense_output off) obey the same identities, NotEnabled when disabled.",
         "rounding bound 64 eps (|y| + (|h| + |t|) max(|f|, |secant slope|))", "§4 C06"),
 "C07": ("continuous order conditions on extracted dense weights b_j(theta) (exhaustive over rooted trees) + empirical interior error slopes + Radau collocation polynomial check",
         "Dense-output weights are extracted from the real interpolant and checked against all continuous order conditions up to q at many theta; interior error slopes on closed-form problems for all six methods; BDF interior vs endpoint error on whole runs.",
         "order-condition theory; extraction exact", "§4 C07"),
 "C08": ("event monitors: recomputation of g on the run's own continuous solution, bracketing, direction, ordering and shape predicates",
         "Every reported event of thousands of runs (harness-owned event functions, roots placed relative to the pilot grid) is checked for location inside its step, y_e = sol(t_e), root quality, direction, order and shapes.",
         "harness-owned event functions; root criterion |g| small or sign bracket within delta", "§4 C08"),
 "C09": ("sign-pattern monitor over consecutive accepted endpoints + known-root monitor (g = t - c)",
         "For each pair of consecutive reported points the sign pattern of every event function decides how many events must be reported in that step; single known roots must be found exactly once at the right place; with a terminal function in the list the interval cut by the stop is judged through the run without the terminal flag.",
         "exact zeros at endpoints make the adjacent intervals inconclusive (allowed either way)", "§4 C09"),
 "C10": ("twin-run differential monitor (terminal vs non-terminal configuration)",
         "Pairs of runs differing only in the terminal flag: status, final sample = event point bitwise, nothing later, earlier same-step events kept, identical prefix.",
         "twin shares everything but terminal_count", "§4 C10"),
 "C11": ("step-attempt decoding from the ode call log + unbudgeted twin comparison",
         "Accepted steps (dense segments / callback intervals) never exceed max_step; first trial step read from the ode log equals first_step; budgeted runs compared bit for bit with the prefix of the unbudgeted twin and status checked.",
         "attempt length and c_s = 1 stage measured at run time by a single-step probe", "§4 C11"),
 "C12": ("bitwise metamorphic monitor across the 8 subsets of {t_eval, dense_output, events}: hash of the complete ode call log, counters, final state",
         "The complete sequence of right-hand-side calls (times and states, accepted and rejected attempts) must be bit-identical across all output-option subsets (requested times on, and 1..12 ulps beside, step ends) and across repetitions; low-level builders: dense on/off twins and callback-free twins.",
         "ode-log hash collision probability negligible (64-bit FNV over all bit patterns)", "§4 C12"),
 "C13": ("metamorphic pair monitors (time reflection, 2^k scaling, scalar-vs-vector tolerance, identical copies), bitwise where the property says so",
         "Pairs of exactly equivalent problems must yield bitwise equivalent trajectories (explicit methods; implicit with user Jacobian); copies relation judged on first step, step counts and accuracy relative to the single system.",
         "symmetry relations hold bitwise on the repaired tree (measured), so exact equality is the oracle", "§4 C13"),
 "C14": ("reference-solution monitor on stiff families (Prothero-Robinson with exact solution, Robertson/Van der Pol vs committed reference table) + step-count-vs-stiffness monitor + invariant monitor",
         "Radau/BDF on stiffness ratios 1e2..1e10 (linear and nonlinear Prothero-Robinson ladders with closed-form solutions, Robertson, Van der Pol, linear kinetics networks): Success, error within tolerance scale, step count bounded independently of the ratio (flat on the slow manifold), linear invariants preserved.",
         "reference table generated by two independent routes (SciPy Radau/LSODA, ivp's other implicit method)", "§4 C14"),
 "C15": ("differential monitors across mass/Jacobian sources and storages (bitwise where stated) + DAE residual monitor",
         "Mass-matrix form vs explicit form within tolerance; index-1 DAE constraints satisfied; default mass = identity for every storage; Identity/Full/Banded storages bit-identical (Jacobian storage also under mass matrices wider than the Jacobian band); analytic vs finite-difference Jacobian within tolerance.",
         "closed-form or reference solutions as in C01/C14", "§4 C15"),
 "C16": ("backward-error monitor with double-double residuals and factors read back from the code; exhaustive small-integer enumeration with exact rational elimination oracle",
         "Exhaustive over small-integer matrices up to 3x3 and >=2e4 random real/complex systems (n<=12, six structural kinds): componentwise Higham bound, multipliers <= 1, exactly singular inputs rejected with SingularMatrix, argument errors, solve modifies only b, no panic.",
         "double-double residuals; Higham Thm 9.4; exact rational GE (i128) for the singular oracle", "§4 C16"),
 "C17": ("reference-model monitor: dense Vec<Vec<f64>> model of every Matrix operation, exhaustive over sizes/storages/bandwidths + random operation sequences",
         "Every constructor, read, write, scalar and binary operation for all storage combinations n<=8 is compared entrywise with a dense model; writes outside the band must panic and leave the data intact.",
         "all operations are single IEEE operations per entry (== comparison)", "§4 C17"),
 "C18": ("counter monitor: solver statistics vs the probe's own call counts and callback counts",
         "nfev/njev/naccpt/nstep compared with what the instrumented right-hand side, Jacobian and output callbacks actually observed.",
         "stepper vs differencing evaluations separated by delegating the default Jacobian to an inner IVP under a flag", "§4 C18"),
 "C19": ("trace-specification monitor on recorded SolOut callback sequences under scripted callback behaviours",
         "Recorded callback traces of the low-level builders are checked against the protocol (initial call, contiguity, exactly once per accepted step, interrupt stops at once, ModifiedSolution re-evaluates at the written state, no-op and doubling relations, continuation from a far-away written state against a closed-form flow).",
         "harness-owned SolOut records every callback and the probe's call counter at entry", "§4 C19"),
 "C20": ("differential monitor: Python extension vs Rust API on a shared case table (bitwise), layout/shape predicates, sparsity-group monitor on the Python RHS log",
         "The PyO3 module is built from the working tree and driven from python3-vt; every case's OdeResult is compared with the Rust Solution for the same case bit for bit, shapes/status/success checked, args/jac/jac_sparsity behaviour observed through call logs.",
         "right-hand sides restricted to + - * / in identical association order so both sides are bit-identical", "§4 C20"),
}

CLAIMED = json.load(open(os.path.join(V, "tools", "claimed.json")))

checks = []
na = []
for pid in sorted(P):
    tech, text, note, ref = P[pid]
    if pid in CLAIMED:
        checks.append({
            "property_id": pid,
            "quick_cmd": f"./check {pid} quick",
            "thorough_cmd": f"./check {pid} thorough",
            "evidence_file": f"/verif/evidence/{pid}.json",
            "replay_cmd_template": "./check replay {path}",
            "engine": "ivpmon",
            "level_claimed": {"category": "exploration", "text": text, "design_ref": "DESIGN.md " + ref},
            "level_note": note,
            "technique": "runtime monitoring: " + tech,
        })
    else:
        na.append({"property_id": pid, "reason": "monitor under construction in this round (design in DESIGN.md " + ref + "); not claimed until its check runs silent on the unchanged tree"})

hooks_commits = []
m = {
  "version": 1,
  "setup_cmd": "./check build",
  "hooks": {
    "guard": "none (no hooks: every observation point is reached through harness-owned IVP / SolOut implementations at the public API boundary)",
    "enable": "not applicable - the harness crate depends on /repo by path and is rebuilt from the current working tree by ./check",
    "baseline_off_cmd": "cd /repo && cargo test --workspace --no-fail-fast --offline",
    "source_commits": hooks_commits,
    "add_only": True,
  },
  "engines": [
    {"name": "ivpmon", "path": "/verif/harness", "serves_properties": sorted(CLAIMED), "kind_free_text": "Rust harness: instrumented IVP/SolOut probes, workload generators, online and offline monitors (built with overflow-checks and debug-assertions on)"},
    {"name": "c20_driver", "path": "/verif/py/c20_driver.py", "serves_properties": ["C20"], "kind_free_text": "python3-vt driver comparing the PyO3 module with the Rust API"},
  ],
  "checks": checks,
  "not_applicable": na,
  "notes": "All checks: exit 0 = held on everything observed, exit 1 + 'VIOLATION property=<id> replay=<path>' = violation not listed in known_findings.json, exit 2 = inconclusive / harness error (never prints VIOLATION). Known findings: /verif/known_findings.json. Seeds via VERIF_SEED.",
}
json.dump(m, open(os.path.join(V, "MANIFEST.json"), "w"), indent=1)
print("claimed:", sorted(CLAIMED), "not claimed:", [x["property_id"] for x in na])
