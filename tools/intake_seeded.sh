#!/bin/bash
# usage: tools/intake_seeded.sh <Cxx> <suffix>   — takes /tmp/wtD_<Cxx>/{patch.diff,tests/demo_seeded.rs|demo.py,meta_notes.txt}
# into /verif/seeded/<Cxx>-<suffix>/, re-verifies it in a fresh scratch worktree (verify_seeded.sh) and runs the owning
# check's quick tier against it in the mirror (never touches /repo).
set -u
p="$1"; s="$2"; src=/tmp/wt${s}_$p; d=/verif/seeded/$p-$s
mkdir -p $d
git -C $src diff -- src > $d/patch.diff
[ -f $src/tests/demo_seeded.rs ] && cp $src/tests/demo_seeded.rs $d/demo.rs
[ -f $src/demo.py ] && cp $src/demo.py $d/demo.py
cp $src/meta_notes.txt $d/notes.txt 2>/dev/null
/verif/tools/verify_seeded.sh $d $d/verify.json >/dev/null 2>&1
cat $d/verify.json
