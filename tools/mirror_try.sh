#!/bin/bash
# usage: tools/mirror_try.sh <patch.diff|none> <tier> <PROP> [PROP...]
# Same as try_patch.sh, but never touches /repo: a scratch worktree of /repo HEAD (/tmp/ivpmirror/repo) and a copy of
# /verif's harness pointed at it (/tmp/ivpmirror/verif) are used instead, so that background sweeps running against
# /repo are not disturbed. Only a development aid: the detection recorded in seeded/*/meta.json comes from
# run_seeded.py / try_patch.sh, which apply the patch to /repo itself.
# VERIF_SEED is passed through. `tools/mirror_try.sh clean` removes the mirror.
set -u
M=${MIRROR:-/tmp/ivpmirror}
if [ "${1:-}" = "clean" ]; then git -C /repo worktree remove --force $M/repo 2>/dev/null; rm -rf $M; exit 0; fi
patch="$1"; tier="$2"; shift 2
[ "$patch" != "none" ] && patch="$(realpath "$patch")"
mkdir -p $M
if [ ! -d $M/repo ]; then git -C /repo worktree add -q --detach $M/repo HEAD || exit 2; fi
git -C $M/repo checkout -f -q --detach "$(git -C /repo rev-parse HEAD)" || exit 2
git -C $M/repo checkout -f -q HEAD -- .
mkdir -p $M/verif
rsync -a --delete --exclude .build --exclude .git --exclude evidence --exclude replays /verif/ $M/verif/
mkdir -p $M/verif/evidence $M/verif/replays
sed -i "s|path = \"/repo\"|path = \"$M/repo\"|" $M/verif/harness/Cargo.toml
sed -i "s|cd /repo \&\&|cd $M/repo \&\&|" $M/verif/check
if [ "$patch" != "none" ]; then
  cd $M/repo
  if git apply --check "$patch" 2>/dev/null; then git apply "$patch"
  elif patch -p1 -F3 -s --no-backup-if-mismatch --dry-run < "$patch" >/dev/null 2>&1; then patch -p1 -F3 -s --no-backup-if-mismatch < "$patch"
  else echo "$patch APPLY-FAILED"; exit 3; fi
fi
for p in "$@"; do
  out=$(cd $M/verif && ./check "$p" "$tier" 2>&1)
  code=$?
  sig=$(echo "$out" | grep "signature=" | sed 's/ ::.*//; s/ *signature=//' | cut -c1-100 | head -4 | tr '\n' ' ')
  herr=$(echo "$out" | grep -m1 -E "HARNESS-ERROR|INCONCLUSIVE" | cut -c1-150)
  echo "$(basename $(dirname $patch)) $p exit=$code $sig $herr"
done
git -C $M/repo checkout -f -q HEAD -- .
