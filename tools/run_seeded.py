#!/usr/bin/env python3
"""For every seeded change under /verif/seeded/<id>/: apply patch.diff to /repo, run the owning property's quick check
(and thorough if quick misses), restore /repo, and record the outcome in meta.json ("detection")."""
import json, os, subprocess, sys, glob
V = "/verif"
only = sys.argv[1:]
rows = []
for d in sorted(glob.glob(V + "/seeded/*/")):
    sid = os.path.basename(d.rstrip("/"))
    if only and sid not in only:
        continue
    meta = json.load(open(d + "meta.json"))
    prop = meta["property"]
    res = {}
    for tier in ("quick", "thorough"):
        out = subprocess.run([V + "/tools/try_patch.sh", d + "patch.diff", tier, prop], capture_output=True, text=True).stdout
        line = [l for l in out.splitlines() if (" exit=" in l)]
        res[tier] = line[0].split(" ", 1)[1] if line else out.strip()[-200:]
        if "exit=1" in res[tier]:
            break
    meta["detection"] = res
    meta["detected"] = any("exit=1" in v for v in res.values())
    json.dump(meta, open(d + "meta.json", "w"), indent=1)
    rows.append((sid, prop, meta["detected"], res))
    print(sid, prop, "DETECTED" if meta["detected"] else "MISSED", res)
