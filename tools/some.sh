#!/bin/bash
# usage: tools/some.sh <quick|thorough> <seed> <PROP> [PROP...]  — like all.sh for a chosen list of properties
tier="$1"; seed="$2"; shift 2
cd "$(dirname "$0")/.."
for p in "$@"; do
  t0=$(date +%s)
  out=$(VERIF_SEED=$seed ./check $p $tier 2>&1); c=$?
  echo "$p tier=$tier seed=$seed exit=$c time=$(( $(date +%s) - t0 ))s $(echo "$out" | grep -E "^$p " | sed 's/.*evaluations=/evaluations=/' | cut -c1-120)"
  [ $c -ne 0 ] && echo "$out" | grep -E "signature=|INCONCL|HARNESS" | head -5 | cut -c1-300
done
exit 0
