#!/bin/bash
# usage: tools/try_patch.sh <patch.diff> <tier> <PROP> [PROP...]
# Applies a patch to /repo, runs the given checks (evidence/replays go to a scratch dir), and always
# restores /repo afterwards. Prints one line per check: <patch> <PROP> exit=<code> [first signature]
set -u
patch="$1"; tier="$2"; shift 2
cd /repo || exit 2
if [ -n "$(git status --porcelain --untracked-files=no)" ]; then echo "REPO-DIRTY"; exit 2; fi
restore() { cd /repo && git checkout -f -q HEAD -- . && find . -name '*.rej' -o -name '*.orig' | grep -v target | xargs -r rm -f; }
if git apply --check "$patch" 2>/dev/null; then
  git apply "$patch"
elif patch -p1 -F3 -s --no-backup-if-mismatch --dry-run < "$patch" >/dev/null 2>&1; then
  patch -p1 -F3 -s --no-backup-if-mismatch < "$patch"
else
  echo "$patch APPLY-FAILED"; restore; exit 3
fi
mkdir -p /tmp/try_patch_scratch && cp /verif/known_findings.json /tmp/try_patch_scratch/
for p in "$@"; do
  out=$(cd /verif && IVPMON_VERIF_DIR=/tmp/try_patch_scratch ./check "$p" "$tier" 2>&1)
  code=$?
  sig=$(echo "$out" | grep "signature=" | sed 's/ ::.*//; s/ *signature=//' | cut -c1-90 | head -3 | tr '\n' ' ')
  herr=$(echo "$out" | grep -m1 -E "HARNESS-ERROR|INCONCLUSIVE" | cut -c1-150)
  echo "$(echo $patch | sed 's|.*/\(C[0-9]*/[A-Z0-9a-z_]*\)/patch.diff|\1|') $p exit=$code $sig $herr"
done
restore
git -C /repo status --porcelain --untracked-files=no | head -3
