#!/bin/bash
# usage: tools/verify_seeded.sh <dir-with-patch.diff-and-demo> <out.json>
# Confirms in a scratch worktree of /repo HEAD: (1) the patch applies and the pinned test suite passes with it,
# (2) the demonstration fails with the patch, (3) the demonstration passes without it.
set -u
d="$1"; out="$2"
name=$(echo "$d" | tr '/' '_')
wt="/tmp/vs_$name"
rm -rf "$wt"; git -C /repo worktree add -q --detach "$wt" HEAD || exit 2
cd "$wt"
export CARGO_NET_OFFLINE=true CARGO_TARGET_DIR="$wt/target"
applied=false; suite=false; demo_fails=false; demo_passes=false; note=""
if git apply --check "$d/patch.diff" 2>/dev/null; then git apply "$d/patch.diff"; applied=true
elif patch -p1 -F3 -s --no-backup-if-mismatch --dry-run < "$d/patch.diff" >/dev/null 2>&1; then patch -p1 -F3 -s --no-backup-if-mismatch < "$d/patch.diff"; applied=true; note="applied with fuzz"; fi
if $applied; then
  if [ -f "$d/demo.rs" ]; then
    if cargo test --offline >"$wt/suite.log" 2>&1; then suite=true; fi
    cp "$d/demo.rs" tests/demo_seeded.rs
    if cargo test --offline --test demo_seeded >"$wt/demo_with.log" 2>&1; then demo_fails=false; else if grep -q "test result: FAILED" "$wt/demo_with.log"; then demo_fails=true; else note="$note; demo did not build with patch"; fi; fi
    git checkout -q -- src
    if cargo test --offline --test demo_seeded >"$wt/demo_without.log" 2>&1; then demo_passes=true; fi
  else
    if cargo test --offline >"$wt/suite.log" 2>&1; then suite=true; fi
    cargo build --offline --features python --lib >"$wt/py1.log" 2>&1 && mkdir -p "$wt/ext1" && cp target/debug/libivp.so "$wt/ext1/ivp.abi3.so"
    if python3-vt "$d/demo.py" "$wt/ext1" >"$wt/demo_with.log" 2>&1; then demo_fails=false; else demo_fails=true; fi
    git checkout -q -- src
    cargo build --offline --features python --lib >"$wt/py2.log" 2>&1 && mkdir -p "$wt/ext2" && cp target/debug/libivp.so "$wt/ext2/ivp.abi3.so"
    if python3-vt "$d/demo.py" "$wt/ext2" >"$wt/demo_without.log" 2>&1; then demo_passes=true; fi
  fi
fi
tail -5 "$wt/demo_without.log" 2>/dev/null | tr '\n' ' ' | cut -c1-300 > "$wt/tail.txt"
echo "{\"dir\": \"$d\", \"applied\": $applied, \"suite_passes_with_patch\": $suite, \"demo_fails_with_patch\": $demo_fails, \"demo_passes_without_patch\": $demo_passes, \"note\": \"$note\"}" > "$out"
cat "$out"
cd /; git -C /repo worktree remove --force "$wt"
